'''C20 - notifications only at heights both sources agree on, and nothing dropped.

Explicit-state BFS.  The transition function is the real electrumx.server.controller.
Notifications object, composed with a small environment automaton that encodes which calls the
surrounding system (block processor, mempool tracker, session manager start-up) can make:

  D   daemon height (non-decreasing)            B   block processor in-memory height
  H   flushed DB height                         R   height of the last block report
  ph  block processor phase: idle | reporting (caught-up flush done, on_block not yet called)
  mp  mempool refresh: idle | running(h) (h captured when D == H == h held)

Events: new_block; bp_advance (B+=1); bp_flush (cache-pressure flush, H=B, no report);
cu_flush (B>=D: the caught-up flush, H=B); daemon_fall(k) (second phase only: the daemon switches
to a shorter branch); cu_report (on_block(fresh token, B)); backup(n)
(reorg: flush then undo n blocks); mp_begin; mp_end (on_mempool(fresh token, captured h));
start (SessionManager.serve -> Notifications.start(H) after the first refresh).

A state is re-built by replaying its event history on a fresh real object.  Oracles:
 (1) every notify(h, .) after start-up is preceded by on_mempool(., h) and by on_block(., h) or
     start(h);
 (2) no loss: from every reachable state, once the block processor has reported at D == H and a
     complete mempool refresh at that height has been delivered (closing sequences a/b below),
     every token handed over since start-up is contained in some notification.
     Closing: finish a running refresh / report, let the block processor reach D, report there
     (unless it already has) and then deliver one complete refresh at D.  A variant that ended
     with the block report instead of the refresh was dropped: it flagged reports that merely
     wait for the next periodic refresh, which is more than the property demands.
'''
import collections

from vf import common
from vf.common import finish, run_sync

PROP = 'C20'


class Gate:
    '''Awaited by the notify callback when notifications are slow: control goes back to the
    driver, which resumes the call later (event notify_done).'''
    def __await__(self):
        yield self


class Sys:
    falling = False
    empties = False          # reports / refreshes may also hand over an EMPTY set
    suspend = False          # the notify callback is slow: the call that issued it stays in flight

    def __init__(self, h0=0):
        from electrumx.server.controller import Notifications
        self.n = Notifications()
        self.D = self.B = self.H = h0
        self.R = None
        self.ph = 'idle'
        self.mp = None
        self.mp_done = 0
        self.started = False
        self.fresh = 0
        self.calls = []          # ('mp', tok, h) | ('bp', tok, h) | ('start', h) | ('notify', h, toks)
        self.owed = set()        # tokens handed over after start and not yet notified
        self.src = {}
        self.bad = []
        self.blocked = {}        # 'b' / 'm' -> the coroutine of the call still in flight
        self.calling = None

    async def _notify(self, height, touched):
        touched = frozenset(touched)
        self.calls.append(('notify', height, touched))
        self.owed -= touched
        # oracle (1)
        seen_mp = any(c[0] == 'mp' and c[2] == height for c in self.calls)
        seen_bp = any((c[0] == 'bp' and c[2] == height) or (c[0] == 'start' and c[1] == height)
                      for c in self.calls)
        is_start_call = self.calls[-2][0] == 'start' if len(self.calls) >= 2 else False
        if not is_start_call and not (seen_mp and seen_bp):
            self.bad.append(('notify-at-unagreed-height', height, seen_mp, seen_bp))
        if self.suspend and self.calling in ('b', 'm'):
            await Gate()

    def _drive(self, src, coro):
        '''Run a call of source src until it returns or blocks in a slow notification.'''
        self.calling = src
        try:
            coro.send(None)
        except StopIteration:
            self.calling = None
            return True
        self.calling = None
        self.blocked[src] = coro
        return False

    def token(self, src):
        self.fresh += 1
        t = f'{src}{self.fresh}'
        self.src[t] = src
        if self.started:
            self.owed.add(t)
        return t

    def enabled(self, maxh):
        ev = []
        if self.D < maxh:
            ev.append(('new_block',))
        if self.falling and self.started:
            for k in (1, 2):
                if self.D - k >= 0:
                    ev.append(('daemon_fall', k))
        for src in sorted(self.blocked):
            ev.append(('notify_done', src))
        if 'b' in self.blocked:
            pass                # the block processor is inside on_block
        elif self.ph == 'idle':
            if self.B < self.D:
                ev.append(('bp_advance',))
            if self.H < self.B:
                ev.append(('bp_flush',))
            if self.B >= self.D:
                # next_block_hashes finds nothing to fetch (also when the daemon is lower)
                ev.append(('cu_flush',))
            for n in (1, 2):
                if self.B - n >= 0 and self.started:
                    ev.append(('backup', n))
        else:
            ev.append(('cu_report',))
            if self.empties:
                ev.append(('cu_report', 'empty'))
        if 'm' in self.blocked:
            pass                # the mempool task is inside on_mempool
        elif self.mp is None:
            if self.D == self.H:
                ev.append(('mp_begin',))
        else:
            ev.append(('mp_end',))
            if self.empties:
                ev.append(('mp_end', 'empty'))
        if not self.started and self.mp_done and self.ph == 'idle':
            ev.append(('start',))
        return ev

    def apply(self, ev):
        k = ev[0]
        if k == 'new_block':
            self.D += 1
        elif k == 'daemon_fall':
            self.D -= ev[1]
        elif k == 'bp_advance':
            self.B += 1
            self.R = None           # a report only counts for the height it was made at
        elif k == 'bp_flush':
            self.H = self.B
        elif k == 'cu_flush':
            self.H = self.B
            self.ph = 'reporting'
        elif k == 'cu_report':
            empty = len(ev) > 1
            t = None if empty else self.token('b')
            self.calls.append(('bp', t, self.B))
            self.R = self.B
            self.ph = 'idle'
            self._drive('b', self.n.on_block(set() if empty else {t}, self.B))
        elif k == 'backup':
            self.B -= ev[1]
            self.H = self.B
            self.R = None
        elif k == 'mp_begin':
            self.mp = self.D
        elif k == 'mp_end':
            h, self.mp = self.mp, None
            self.mp_done += 1
            empty = len(ev) > 1
            t = None if empty else self.token('m')
            self.calls.append(('mp', t, h))
            self._drive('m', self.n.on_mempool(set() if empty else {t}, h))
            # the refresh and a block report at h (with the block processor still there) have
            # both been received: what the refresh handed over must be in a notification now
            if t is not None and t in self.owed and self.R == h:
                self.bad.append(('refresh-at-reported-height-not-notified', h, t))
        elif k == 'notify_done':
            coro = self.blocked.pop(ev[1])
            self._drive(ev[1], coro)
        elif k == 'start':
            self.started = True
            self.calls.append(('start', self.H))
            run_sync(self.n.start(self.H, self._notify))
        else:
            raise common.Broken(f'unknown event {ev}')

    def canon(self):
        '''The object treats tokens opaquely, so an un-notified token is fully described by the
        set of pending containers that hold it; tokens with the same container set have the same
        futures and are merged (multiplicity dropped), already-notified tokens never matter
        again.  The pending maps are read from the object for state matching only - the oracles
        use the notify callback alone.'''
        where = {t: [] for t in self.owed}
        keys = []
        for attr in ('_touched_mp', '_touched_bp'):
            d = getattr(self.n, attr, None)
            if d is None:
                raise common.Broken('Notifications has no pending map ' + attr)
            for h, toks in d.items():
                keys.append((attr, h))
                for t in toks:
                    if t in where:
                        where[t].append((attr, h))
        owed = frozenset(tuple(sorted(v)) for v in where.values())
        hb = getattr(self.n, '_highest_block', None)
        hm = frozenset(c[2] for c in self.calls if c[0] == 'mp')
        hbk = frozenset(c[2] if c[0] == 'bp' else c[1] for c in self.calls
                        if c[0] in ('bp', 'start'))
        return (self.D, self.B, self.H, self.R, self.ph, self.mp, self.started,
                min(self.mp_done, 1), tuple(sorted(keys)), owed, hb, hm, hbk,
                tuple(sorted(self.blocked)))


def build(hist):
    s = Sys()
    for ev in hist:
        s.apply(tuple(ev))
    return s


def check_closings(hist, res):
    '''Apply the quiescence closings to a fresh copy of the state and test oracle (2).'''
    base = build(hist)
    if not base.started or base.B > base.D:
        # above the daemon the index is not at quiescence and cannot get there without a
        # further reorganisation; those continuations are explored by the search itself
        return 0
    n = 0
    # closing 'a' hands over fresh tokens; closing 'e' is the idle system: the report and the
    # refresh both carry an empty set
    for kind in ('a', 'e'):
        s = build(hist)
        drained = [('notify_done', src) for src in sorted(s.blocked)]
        for ev in drained:
            s.apply(ev)
        seq = []
        if s.mp is not None:
            seq.append(('mp_end',))
        if s.ph == 'reporting':
            seq.append(('cu_report',))
        for ev in seq:
            s.apply(ev)
            for src in sorted(s.blocked):
                s.apply(('notify_done', src))
        # bring the block processor to the daemon's height
        tail = []
        while s.B < s.D:
            tail.append(('bp_advance',))
            s.apply(tail[-1])
        # the idle poll reports the current height again every few seconds, then one refresh
        more = [('cu_flush',), ('cu_report',), ('mp_begin',), ('mp_end',)] if kind == 'a' else \
            [('cu_flush',), ('cu_report', 'empty'), ('mp_begin',), ('mp_end', 'empty')]
        for ev in more:
            if ev[:1] not in s.enabled(99):
                raise common.Broken(f'closing event {ev} not enabled after {hist}+{seq}+{tail}')
            s.apply(ev)
            for src in sorted(s.blocked):       # slow notifications are delivered in the end
                s.apply(('notify_done', src))
        full = drained + seq + tail + more
        res.count('closings')
        if s.owed:
            n += 1
            lost = sorted(s.owed)
            srcs = ''.join(sorted({s.src[t] for t in lost}))
            where = set()
            for t in lost:
                hs = [h for attr in ('_touched_mp', '_touched_bp')
                      for h, toks in getattr(s.n, attr).items() if t in toks]
                where.add('dropped' if not hs else
                          'stranded-above-current-height' if min(hs) > s.D else
                          'pending-at-or-below-current-height')
            res.violation(f'token-lost:{"+".join(sorted(where))}:src={srcs}',
                          {'hist': hist, 'closing': full, 'suspend': Sys.suspend},
                          {'history': hist, 'closing': full, 'lost': lost,
                           'calls': s.calls})
        if s.bad:
            n += 1
            res.violation(s.bad[0][0], {'hist': hist, 'closing': full, 'suspend': Sys.suspend},
                          {'history': hist, 'bad': s.bad, 'calls': s.calls})
    return n


def run_case(case, res):
    if 'hist' in case:                      # replay of a single history
        hist = [tuple(e) for e in case['hist']]
        Sys.falling = True
        Sys.suspend = bool(case.get('suspend'))
        s = build(hist)
        if s.bad:
            res.violation(s.bad[0][0], case, {'bad': s.bad, 'calls': s.calls})
        check_closings(hist, res)
        return
    maxh, depth = case['maxh'], case['depth']
    Sys.falling = bool(case.get('falling'))
    Sys.empties = bool(case.get('empties'))
    Sys.suspend = bool(case.get('suspend'))
    root = []
    seen = {build(root).canon()}
    frontier = collections.deque([root])
    states = transitions = 0
    maxdepth = 0
    violating = 0
    while frontier:
        hist = frontier.popleft()
        states += 1
        maxdepth = max(maxdepth, len(hist))
        s = build(hist)
        if s.bad:
            violating += 1
            res.violation(s.bad[0][0], {'hist': hist, 'suspend': Sys.suspend},
                          {'history': hist, 'bad': s.bad, 'calls': s.calls})
            continue
        if check_closings(hist, res):
            violating += 1
            continue
        if len(hist) >= depth:
            res.count('depth_cap_hits')
            continue
        for ev in s.enabled(maxh):
            transitions += 1
            res.distinct('event_kinds', ev[0] + ('-empty' if len(ev) > 1 and ev[1] == 'empty' else ''))
            nxt = hist + [ev]
            k = build(nxt).canon()
            if k not in seen:
                seen.add(k)
                frontier.append(nxt)
    res.count('states', states)
    res.count('transitions', transitions)
    res.count('violating_states', violating)
    res.maxi('depth', maxdepth)
    res.sample({'example_history': [list(e) for e in hist], 'calls_on_real_object': build(hist).calls})


ALL_EVENTS = {'notify_done', 'cu_report-empty', 'mp_end-empty', 'daemon_fall', 'new_block', 'bp_advance', 'bp_flush', 'cu_flush', 'cu_report', 'backup',
              'mp_begin', 'mp_end', 'start'}


def run(tier, seed, started):
    maxh, depth = (3, 40) if tier == 'quick' else (4, 60)
    fmaxh = 2 if tier == 'quick' else 3
    emaxh = 2 if tier == 'quick' else 3
    res = common.farm(run_case, [{'maxh': maxh, 'depth': depth},
                                 {'maxh': fmaxh, 'depth': depth, 'falling': True},
                                 {'maxh': emaxh, 'depth': depth, 'empties': True},
                                 {'maxh': emaxh - 1, 'depth': depth, 'empties': True, 'falling': True},
                                 {'maxh': emaxh, 'depth': depth, 'suspend': True},
                                 {'maxh': emaxh - 1, 'depth': depth, 'suspend': True, 'falling': True}],
                      seed=seed, nproc=6, chunk=1)
    c = res.counters
    if c.get('states', 0) < 500 or res.sets.get('event_kinds') != ALL_EVENTS:
        common.vacuous(PROP, res, f'vacuous C20 run: {c} {res.sets.get("event_kinds")}')
    coverage = {
        'states': c['states'], 'transitions': c['transitions'],
        'traces_validated_against_impl': c['states'],
        'evaluations': c['states'] + c['closings'],
        'distinct_nontrivial': c['states'],
        'rule': (f'BFS from the caught-up initial state over daemon heights 0..{maxh}, depth '
                 f'{depth}; events new_block, bp_advance, bp_flush, cu_flush, cu_report, '
                 f'backup(1|2), mp_begin, mp_end, start; states distinct under the canonical form '
                 f'(environment variables, pending containers, un-notified tokens by container '
                 f'membership, heights seen per source); the quiescence closing evaluated from every state'),
        'exhaustive': c.get('depth_cap_hits', 0) == 0,
        'bounds': {'max_height': maxh, 'depth': depth, 'depth_cap_hits': c.get('depth_cap_hits', 0)},
        'explanation': ('every transition calls the real Notifications object; a state is its '
                        'event history replayed on a fresh object, so each state is a trace '
                        'validated against the implementation.  The environment automaton is bound '
                        'to the real wiring by C07, whose full-system runs record the real call '
                        'sequences and check them against this automaton.'),
    }
    assumptions = ['phase 1: daemon height never decreases (C03 premise); phase 2: the daemon may '
                   f'also fall by 1 or 2 (heights 0..{fmaxh}), which is what makes reported heights '
                   f'fall; phases 3 and 4 (heights 0..{emaxh} / 0..{emaxh - 1} with a falling daemon): '
                   'every report and refresh may also carry an empty set; phases 5 and 6 (same '
                   'heights): the notify callback is slow, the call that issued it stays in flight '
                   'while the other source keeps calling',
                   'a token stands for any non-empty set of script hashes']
    return finish(PROP, tier, seed, 'model_checking', res, coverage, assumptions, started)


def replay(path):
    return common.standard_replay(PROP, path, run_case)
