'''C14 - history compaction never changes any script hash's history.

Exhaustive bounded enumeration + fault enumeration: history databases produced by really
indexing recipe chains under flush schedules (rows genuinely split) x max row entries in
{1,2,3,12500} x batch limit {1 byte, 64 bytes, 8 MB} x {the real electrumx_compact_history
coroutine in one go; stopped after batch k and resumed, for every k; killed after batch k and
before/after the final flush-count copy to the UTXO DB, then either the tool again or the server
(which cancels an unfinished compaction); killed after EVERY durable effect of the run} x {then two more blocks indexed; then a reorg of depth
1 and re-advance}.
Oracle: the tx numbers of every script hash are unchanged at every stop point and after every
reopen; after further blocks / the reorg the history equals the reference indexer.  The
abandoned-then-keep-indexing continuations are restricted to the property's carve-out (no script
hash with more compacted rows than the flush count).
'''
import importlib.machinery
import importlib.util
import itertools
import os

from hashlib import sha256

from vf import chain, common, indexrun, observe, reorgrun, world
from vf.chain import SCRIPTS, script_hashX
from vf.common import farm, finish

PROP = 'C14'
ACT = indexrun.ACTIVATION
CHAINS = {
    'mix': (['fan', 'chain2', 'self', 'multi', 'old', 'new', 'self', 'fan'], 'HF-HHF-H'),
    'many-rows': (['self', 'self', 'self', 'self', 'self', 'self', 'old', 'new'], 'FFFFFFH-'),
    'few-rows': (['fan', 'opret', 'empty', 'self', 'multi', 'chain2'], '--F---'),
}
LIMITS = {'server': 5, 'tool': 5}     # REORG_LIMIT of the server's and of the tool's environment
MORE = ['self', 'multi']            # blocks indexed after the compaction
# scripts whose hashX starts with fffe / ffff: the last two prefixes of the compaction cursor
SCRIPT_Y = bytes.fromhex('5153790000')
SCRIPT_Z = bytes.fromhex('51df680100')
assert sha256(SCRIPT_Y).digest()[:2] == b'\xff\xfe' and sha256(SCRIPT_Z).digest()[:2] == b'\xff\xff'


def r_payyz(sim):
    ops = [op for op in sim.spendable(chain.SPENDABLE_KEYS) if sim.utxos[op]['value'] > 10 ** 6]
    if not ops:
        return []
    v = sim.utxos[ops[0]]['value']
    return [chain.Tx([(ops[0][0], ops[0][1], b'\x01\x51', 0xffffffff)],
                     [(v // 3, SCRIPT_Y), (v // 3, SCRIPT_Z), (v - 2 * (v // 3), chain.SCRIPTS['A'])])]


# two scripts whose hashX share the 2-byte prefix 2278: one compaction pass handles them together
SCRIPT_P = bytes.fromhex('5100003075')
SCRIPT_Q = bytes.fromhex('510000ce75')
assert sha256(SCRIPT_P).digest()[:2] == sha256(SCRIPT_Q).digest()[:2] == b'\x22\x78'


def r_paypq(sim):
    ops = [op for op in sim.spendable(chain.SPENDABLE_KEYS) if sim.utxos[op]['value'] > 10 ** 6]
    if not ops:
        return []
    v = sim.utxos[ops[0]]['value']
    return [chain.Tx([(ops[0][0], ops[0][1], b'\x01\x51', 0xffffffff)],
                     [(v // 3, SCRIPT_P), (v // 3, SCRIPT_Q), (v - 2 * (v // 3), chain.SCRIPTS['A'])])]


def r_payq(sim):
    ops = [op for op in sim.spendable(chain.SPENDABLE_KEYS) if sim.utxos[op]['value'] > 10 ** 6]
    if not ops:
        return []
    v = sim.utxos[ops[0]]['value']
    return [chain.Tx([(ops[0][0], ops[0][1], b'\x01\x51', 0xffffffff)],
                     [(v // 2, SCRIPT_Q), (v - v // 2, chain.SCRIPTS['A'])])]


chain.RECIPES['paypq'] = r_paypq
chain.RECIPES['payq'] = r_payq
chain.RECIPES['payyz'] = r_payyz
CHAINS['edge'] = (['payyz', 'old', 'payyz', 'self', 'payyz', 'new', 'payyz'], 'FHFHF-H')
CHAINS['twins'] = (['paypq', 'old', 'paypq', 'payq', 'paypq', 'new', 'payq'], 'FHF-HF-')
MORE_OF = {'edge': ['payyz', 'payyz'], 'twins': ['payq', 'payq']}


def load_tool():
    path = os.path.join(common.REPO, 'electrumx_compact_history')
    loader = importlib.machinery.SourceFileLoader('electrumx_compact_history_tool', path)
    spec = importlib.util.spec_from_loader(loader.name, loader)
    mod = importlib.util.module_from_spec(spec)
    loader.exec_module(mod)
    return mod


def all_hashXs():
    return [script_hashX(s) for s in list(SCRIPTS.values()) + [SCRIPT_Y, SCRIPT_Z, SCRIPT_P, SCRIPT_Q]]


def read_histories(history):
    return {hx: list(history.get_txnums(hx, limit=None)) for hx in all_hashXs()}


def build_db(chain_name):
    '''Index the chain for real and stop the server cleanly; return machine + reference data.'''
    recipes, flush = CHAINS[chain_name]
    sim = indexrun.chain_for(recipes)
    m = world.Machine()
    w = world.World(m, reorg_limit=LIMITS['server'], activation=ACT)
    w.daemon.set_chain(sim.blocks)
    w.flush_schedule = indexrun.flush_map(flush)
    w.start_sync()
    w.run_until_caught_up()
    before = read_histories(w.db.history)
    flush_count = w.db.history.flush_count
    w.close(destroy=False)
    return m, sim, before, flush_count


def open_compacting(m, max_rows):
    w = world.World(m, reorg_limit=LIMITS['tool'], activation=ACT)
    w.db.history.max_hist_row_entries = max_rows
    w.loop.run_coro(w.db.open_for_compacting(), fire_timers=False)
    return w


def tool_loop(w, limit, max_batches=None, stop_before_copy=False):
    '''The body of electrumx_compact_history.compact_history(), batch by batch.'''
    history = w.db.history
    if w.db.state.first_sync:
        raise common.Broken('database still in first sync; the tool refuses it')
    if history.comp_cursor == -1:
        history.comp_cursor = 0
    history.comp_flush_count = max(history.comp_flush_count, 1)
    n = 0
    while history.comp_cursor != -1:
        history._compact_history(limit)
        n += 1
        if max_batches is not None and n >= max_batches and history.comp_cursor != -1:
            return n, False
    if stop_before_copy:
        return n, False
    w.db.set_flush_count(history.flush_count)
    return n, True


def compare_hist(label, got, want, failures):
    for hx in want:
        if got.get(hx) != want[hx]:
            failures.append((label, dict(hashX=hx, got=got.get(hx), want=want[hx])))
            return False
    return True


def carve_out_ok(before, max_rows, flush_count):
    need = max([-(-len(v) // max_rows) for v in before.values() if v] or [0])
    return need <= flush_count


def continue_serving(m, sim, before, res, failures, label, then, max_rows=12500):
    '''Start the server on the database: same histories; then index more / reorg.'''
    blocks = sim.blocks
    w = world.World(m, reorg_limit=LIMITS['server'], activation=ACT)
    try:
        w.daemon.set_chain(blocks)
        w.start_sync()
        try:
            w.run_until_caught_up()
        except (world.SyncFailed, world.Stalled) as e:
            failures.append((f'{label}:server-start-failed', dict(error=repr(e))))
            return
        compare_hist(f'{label}:served-history-changed', read_histories(w.db.history), before,
                     failures)
        ref = observe.ref_at(blocks, len(blocks) - 1, ACT)
        try:
            obs = observe.observe(w, ref, what=('hist',))
            for field, detail in observe.compare(obs, ref, ('hist',)):
                failures.append((f'{label}:{field}', detail if isinstance(detail, dict) else {}))
        except (world.ReaderBlocked, observe.ReadFailed, RuntimeError) as e:
            failures.append((f'{label}:reader-retries-forever', dict(error=repr(e))))
        res.count('server_starts_after_compaction')
        if failures or not then:
            return
        if then == 'tool-again':
            # a second compaction of an already compacted database, then the server again
            w.close(destroy=False)
            for nth in (2, 3):
                wc = open_compacting(m, max_rows)
                try:
                    tool_loop(wc, 8_000_000 if nth == 2 else 64)
                    compare_hist(f'{label}:{then}:history-changed-by-compaction-{nth}',
                                 read_histories(wc.db.history), before, failures)
                finally:
                    wc.close(destroy=False)
                if failures:
                    return
            w = world.World(m, reorg_limit=LIMITS['server'], activation=ACT)
            w.daemon.set_chain(blocks)
            w.start_sync()
            try:
                w.run_until_caught_up()
            except (world.SyncFailed, world.Stalled) as e:
                failures.append((f'{label}:{then}:died', dict(error=repr(e))))
                return
            compare_hist(f'{label}:{then}:served-history-changed', read_histories(w.db.history),
                         before, failures)
            res.count('continuations_tool-again')
            return
        if then == 'index,tool,index':
            # the server indexes a block and stops; the tool runs to completion; the server
            # starts again and indexes another block
            rec = list(sim_recipes(sim))
            ext1 = indexrun.chain_for(rec + more_for(sim)[:1])
            w.daemon.set_chain(ext1.blocks)
            try:
                w.poll()
            except (world.SyncFailed, world.Stalled) as e:
                failures.append((f'{label}:{then}:died', dict(error=repr(e))))
                return
            mid = read_histories(w.db.history)
            w.close(destroy=False)
            wc = open_compacting(m, max_rows)
            try:
                tool_loop(wc, 8_000_000)
                compare_hist(f'{label}:{then}:history-changed-by-second-tool-run',
                             read_histories(wc.db.history), mid, failures)
            finally:
                wc.close(destroy=False)
            if failures:
                return
            w = world.World(m, reorg_limit=LIMITS['server'], activation=ACT)
            ext2 = indexrun.chain_for(rec + more_for(sim))
            w.daemon.set_chain(ext2.blocks)
            w.start_sync()
            try:
                w.run_until_caught_up()
            except (world.SyncFailed, world.Stalled) as e:
                failures.append((f'{label}:{then}:died', dict(error=repr(e))))
                return
            ref = observe.ref_at(ext2.blocks, len(ext2.blocks) - 1, ACT)
            try:
                obs = observe.observe(w, ref, what=('hist',))
                for field, detail in observe.compare(obs, ref, ('hist',)):
                    failures.append((f'{label}:{then}:{field}',
                                     detail if isinstance(detail, dict) else {}))
            except (world.ReaderBlocked, observe.ReadFailed, RuntimeError) as e:
                failures.append((f'{label}:{then}:reader-retries-forever', dict(error=repr(e))))
            res.count('continuations_index,tool,index')
            return
        ext = indexrun.chain_for(list(sim_recipes(sim)) + more_for(sim))
        final = ext.blocks
        if then == 'index+crash':
            # the server indexes two more blocks and DIES after any durable effect of that
            # (between the history commit and the UTXO commit too); restart, catch up: the
            # histories are exact (C04's guarantee, on a database the tool has worked on)
            snap = m.snapshot()
            m.log.clear()
            w.daemon.set_chain(final)
            try:
                w.poll()
            except (world.SyncFailed, world.Stalled) as e:
                failures.append((f'{label}:{then}:died', dict(error=repr(e))))
                return
            log = list(m.log)
            ref = observe.ref_at(final, len(final) - 1, ACT)
            for k, after in itertools.product(range(len(log) + 1), ('server', 'tool')):
                m3 = world.Machine.from_snapshot(snap, log[:k])
                if after == 'tool':
                    # the first program to open the databases after the crash is the tool
                    wc = open_compacting(m3, max_rows)
                    try:
                        if not wc.db.state.first_sync:
                            tool_loop(wc, 8_000_000)
                    finally:
                        wc.close(destroy=False)
                w3 = world.World(m3, reorg_limit=LIMITS['server'], activation=ACT)
                try:
                    w3.daemon.set_chain(final)
                    w3.start_sync()
                    try:
                        w3.run_until_caught_up()
                        obs = observe.observe(w3, ref, what=('hist',))
                        for field, detail in observe.compare(obs, ref, ('hist',)):
                            failures.append((f'{label}:{then}:{field}', dict(
                                detail if isinstance(detail, dict) else {}, crash_after_effect=k,
                                opened_next_by=after, effect=[str(x)[:40] for x in log[k - 1][:3]] if k else None)))
                    except (world.SyncFailed, world.Stalled) as e:
                        failures.append((f'{label}:{then}:died-after-crash', dict(error=repr(e), crash_after_effect=k)))
                    except (world.ReaderBlocked, observe.ReadFailed, RuntimeError) as e:
                        failures.append((f'{label}:{then}:reader-retries-forever',
                                         dict(error=repr(e), crash_after_effect=k)))
                finally:
                    w3.close(destroy=False)
                    m3.destroy()
                res.count('crash_points_after_compaction')
                if failures:
                    return
            res.count('continuations_' + then)
            return
        w.daemon.set_chain(final)
        try:
            w.poll()
            if then in ('index+reorg', 'index+deep-reorg'):
                d = 1 if then == 'index+reorg' else 5
                y = reorgrun.make_branch(list(sim_recipes(sim)) + more_for(sim), d,
                                         ['replay'] + ['new'] * d, b'Y', ext)
                final = y.blocks
                w.daemon.set_chain(final)
                w.poll()
        except (world.SyncFailed, world.Stalled) as e:
            failures.append((f'{label}:{then}:died', dict(error=repr(e))))
            return
        ref = observe.ref_at(final, len(final) - 1, ACT)
        try:
            obs = observe.observe(w, ref, what=('hist',))
            for field, detail in observe.compare(obs, ref, ('hist',)):
                failures.append((f'{label}:{then}:{field}', detail if isinstance(detail, dict) else {}))
        except (world.ReaderBlocked, observe.ReadFailed, RuntimeError) as e:
            failures.append((f'{label}:{then}:reader-retries-forever', dict(error=repr(e))))
        res.count('continuations_' + then)
    finally:
        w.close(destroy=False)


_RECIPES = {}


def sim_recipes(sim):
    return _RECIPES[id(sim)]


def more_for(sim):
    for name, (recipes, _f) in CHAINS.items():
        if recipes is _RECIPES[id(sim)]:
            return MORE_OF.get(name, MORE)
    return MORE


def run_case(case, res):
    LIMITS['server'] = case.get('server_limit', 5)
    LIMITS['tool'] = case.get('tool_limit', 5)
    try:
        return run_case_(case, res)
    finally:
        LIMITS['server'] = LIMITS['tool'] = 5


def run_case_(case, res):
    chain_name, max_rows, limit = case['chain'], case['rows'], case['limit']
    mode = case['mode']
    m, sim, before, flush_count = build_db(chain_name)
    _RECIPES[id(sim)] = CHAINS[chain_name][0]
    failures = []
    if mode == 'die-before-copy' and not carve_out_ok(before, max_rows, flush_count):
        # more compacted rows than the UTXO flush count: the surplus rows look like an unclean
        # shutdown to the next open.  Same mechanism as the property's carve-out.
        res.count('die_before_copy_outside_carve_out_skipped')
        m.destroy()
        return
    if mode == 'fault-in-batch':
        # the tool is interrupted (Ctrl-C) while it is FILLING a write batch: nothing of that
        # batch may reach the database.  Every batch of the run x every operation index.
        from vf import fakeplyvel
        try:
            snapshot = m.snapshot()
            w = open_compacting(m, max_rows)
            base_batches = m.stores.batches_created
            try:
                tool_loop(w, limit)
            finally:
                w.close(destroy=False)
            sizes = {n - base_batches: sz for n, sz in m.stores.batch_sizes.items() if n > base_batches}
        finally:
            m.destroy()
        for rel, size in sorted(sizes.items()):
            for op in range(0, size + 1) if size <= 6 else sorted({0, 1, size // 2, size - 1, size}):
                failures = []
                m2 = world.Machine.from_snapshot(snapshot)
                try:
                    w = open_compacting(m2, max_rows)
                    m2.stores.fault = (m2.stores.batches_created + rel, op)
                    try:
                        tool_loop(w, limit)
                        interrupted = False
                    except fakeplyvel.InjectedFault:
                        interrupted = True
                    finally:
                        w.close(destroy=False)
                    m2.stores.fault = None
                    res.count('faults_in_batches')
                    if interrupted:
                        continue_serving(m2, sim, before, res, failures, 'interrupted-in-batch',
                                         None, max_rows)
                finally:
                    m2.destroy()
                res.count('executions')
                for field, detail in failures[:1]:
                    res.violation(field, dict(case), dict(field=field, batch=rel, op=op,
                                  **{a: b for a, b in detail.items() if a in ('hashX', 'got', 'want', 'error')}))
        res.distinct('modes', mode)
        return
    if mode == 'kill-at-effect':
        # the tool is killed after EVERY durable effect it produces (each LevelDB batch commit,
        # each direct put) - whatever the code considers a batch; then the server, or the tool
        # again and then the server
        try:
            snapshot = m.snapshot()
            m.log.clear()
            w = open_compacting(m, max_rows)
            try:
                tool_loop(w, limit)
            finally:
                w.close(destroy=False)
            log = list(m.log)
        finally:
            m.destroy()
        res.maxi('effects_in_one_compaction', len(log))
        inside = carve_out_ok(before, max_rows, flush_count)
        for k in ([case['cut']] if 'cut' in case else range(len(log) + 1)):
            if not inside and k == len(log) - 1:
                # compaction complete, flush count not yet copied to the UTXO DB, more compacted
                # rows than the flush count: judgment call J2 (the carve-out's mechanism)
                res.count('die_before_copy_outside_carve_out_skipped')
                continue
            for cont in ('server', 'tool-then-server'):
                failures = []
                m2 = world.Machine.from_snapshot(snapshot, log[:k])
                try:
                    if cont == 'tool-then-server':
                        w = open_compacting(m2, max_rows)
                        try:
                            compare_hist('history-changed-after-kill', read_histories(w.db.history),
                                         before, failures)
                            if not failures:
                                tool_loop(w, limit)
                                compare_hist('history-changed-after-resumed-compaction',
                                             read_histories(w.db.history), before, failures)
                        finally:
                            w.close(destroy=False)
                    if not failures:
                        continue_serving(m2, sim, before, res, failures, f'killed:{cont}',
                                         case.get('then') if (inside or cont != 'server') else None,
                                         max_rows)
                finally:
                    m2.destroy()
                res.count('kill_points_x_continuations')
                res.count('executions')
                for field, detail in failures[:1]:
                    res.violation(field, dict(case, cut=k),
                                  dict(field=field, killed_after_effect=k, continuation=cont,
                                       effect=[str(x)[:40] for x in log[k - 1][:3]] if k else None,
                                       **{a: b for a, b in detail.items()
                                          if a in ('hashX', 'got', 'want', 'error', 'script',
                                                   'crash_after_effect')}))
        res.distinct('modes', mode)
        return
    try:
        if mode == 'tool':
            # the real coroutine of the tool, in one go
            tool = load_tool()
            w = world.World(m, reorg_limit=LIMITS['tool'], activation=ACT)   # sets the environment variables
            w.close(destroy=False)
            import electrumx.server.history as histmod
            orig_init = histmod.History.__init__

            def init(self):
                orig_init(self)
                self.max_hist_row_entries = max_rows
            histmod.History.__init__ = init
            from vf.vloop import VLoop
            loop = VLoop()
            loop.enter()
            try:
                m.activate()
                task = loop.create_task(tool.compact_history())
                loop.run_default(until=task.done, fire_timers=False)
                if task.exception():
                    failures.append(('tool-raised', dict(error=repr(task.exception()))))
            finally:
                histmod.History.__init__ = orig_init
                loop.close()
                from vf import fakeplyvel
                for p in list(m.stores.open):
                    m.stores.open.discard(p)
            res.count('tool_runs_in_one_go')
        else:
            # stop (or die) after batch k; k = None means run all batches
            k = case['k']
            w = open_compacting(m, max_rows)
            try:
                n, done = tool_loop(w, limit, max_batches=k,
                                    stop_before_copy=(mode == 'die-before-copy'))
                res.maxi('batches', n)
                compare_hist('history-changed-at-stop-point', read_histories(w.db.history), before,
                             failures)
            finally:
                w.close(destroy=False)
            res.count('stop_points')
            if mode in ('stop-resume', 'die-before-copy') and not failures:
                # the tool again: must pick up where it left off and finish
                w = open_compacting(m, max_rows)
                try:
                    compare_hist('history-changed-after-reopen-for-compaction',
                                 read_histories(w.db.history), before, failures)
                    tool_loop(w, limit if case.get('resume_limit') is None else case['resume_limit'])
                    compare_hist('history-changed-after-resumed-compaction',
                                 read_histories(w.db.history), before, failures)
                finally:
                    w.close(destroy=False)
                res.count('resumed_compactions')
        abandoned = mode == 'abandon'
        then = case.get('then')
        if abandoned and then and not carve_out_ok(before, max_rows, flush_count):
            res.count('continuations_outside_carve_out_skipped')
            then = None
        if not failures:
            continue_serving(m, sim, before, res, failures, f'{mode}', then, max_rows)
        res.count('executions')
        res.distinct('modes', mode)
    finally:
        m.destroy()
    for field, detail in failures[:2]:
        res.violation(field, case, dict(field=field, **{a: b for a, b in detail.items()
                                                        if a in ('hashX', 'got', 'want', 'error',
                                                                 'script', 'limit')}))
    if mode == 'stop-resume' and case.get('k') == 2 and max_rows == 2:
        res.sample(dict(case=case, hashXs=len(before), flush_count=flush_count,
                        entries={hx.hex(): len(v) for hx, v in before.items() if v}), cap=1)


def cases_for(tier):
    q = tier == 'quick'
    cases = []
    for chain_name in CHAINS:
        for rows in (1, 2, 3, 12500):
            for then in (None, 'index', 'index+reorg', 'tool-again'):
                cases.append(dict(chain=chain_name, rows=rows, limit=8_000_000, mode='tool', then=then))
            cases.append(dict(chain=chain_name, rows=rows, limit=64, mode='stop-resume', k=2,
                              then='tool-again'))
            # the tool run "with just DB_DIRECTORY and COIN set" (its own, smaller REORG_LIMIT) on
            # the database of a server configured with a larger one; then a reorganisation deeper
            # than the tool's limit but within the server's
            for mode, k in (('tool', None), ('stop-resume', 2)):
                cases.append(dict(chain=chain_name, rows=rows, limit=8_000_000 if k is None else 64,
                                  mode=mode, k=k, then='index+deep-reorg', server_limit=50, tool_limit=2))
            for limit in (1, 64, 8_000_000):
                ks = range(1, 10) if limit == 1 else (1, 2, 3) if limit == 64 else (None,)
                for k in ks:
                    for mode in ('stop-resume', 'abandon'):
                        thens = ('index', 'index+reorg') if (not q or k in (1, 2, 5, None)) else ('index',)
                        if mode == 'abandon' and k is not None:
                            thens = thens + ('index,tool,index',)
                        for then in thens:
                            cases.append(dict(chain=chain_name, rows=rows, limit=limit, mode=mode,
                                              k=k, then=then))
                cases.append(dict(chain=chain_name, rows=rows, limit=limit, mode='die-before-copy',
                                  k=None, then='index+reorg'))
                cases.append(dict(chain=chain_name, rows=rows, limit=limit, mode='abandon-before-copy',
                                  k=None, then='index+reorg'))
                if limit != 1 or rows > 1:
                    cases.append(dict(chain=chain_name, rows=rows, limit=limit, mode='kill-at-effect',
                                      then='index'))
                    if limit != 1 and (not q or chain_name in ('mix', 'twins')):
                        cases.append(dict(chain=chain_name, rows=rows, limit=limit,
                                          mode='kill-at-effect', then='index+crash'))
                    cases.append(dict(chain=chain_name, rows=rows, limit=limit, mode='fault-in-batch'))
    return cases


def run(tier, seed, started):
    cases = cases_for(tier)
    for c_ in cases:
        if c_['mode'] == 'abandon-before-copy':
            c_['mode'] = 'die-before-copy-then-server'
    res = farm(run_case_wrapper, cases, seed=seed)
    c = res.counters
    need = ['tool_runs_in_one_go', 'stop_points', 'resumed_compactions',
            'server_starts_after_compaction', 'continuations_index', 'continuations_index+reorg']
    if [k for k in need if not c.get(k)] or c.get('max:batches', 0) < 3:
        common.vacuous(PROP, res, f'vacuous C14 run: {c}')
    coverage = {
        'evaluations': c['executions'],
        'distinct_nontrivial': c['stop_points'] + c['tool_runs_in_one_go'],
        'rule': ('3 really indexed databases x row size {1,2,3,12500} x batch limit {1 B, 64 B, 8 MB} x '
                 '{tool coroutine in one go; stop after batch k and resume, every k; abandon after '
                 'batch k and start the server; die before the flush-count copy then tool / server} '
                 'x {index 2 more blocks; + reorg depth 1}; non-trivial = distinct stop points + '
                 'one-go runs'),
        'stop_points': c['stop_points'], 'max_batches_in_one_compaction': c.get('max:batches'),
        'resumed_compactions': c['resumed_compactions'],
        'server_starts_after_compaction': c['server_starts_after_compaction'],
        'continuations_outside_carve_out_skipped': c.get('continuations_outside_carve_out_skipped', 0),
        'die_before_copy_outside_carve_out_skipped': c.get('die_before_copy_outside_carve_out_skipped', 0),
        'kill_points_x_continuations': c.get('kill_points_x_continuations', 0),
        'crash_points_of_later_indexing_after_a_killed_compaction': c.get('crash_points_after_compaction', 0),
        'max_effects_in_one_compaction': c.get('max:effects_in_one_compaction'),
        'exhaustive': True,
    }
    assumptions = ['a LevelDB batch commit / direct put is atomic (process death); mode '
                   'kill-at-effect cuts after every one of them, whatever the code calls a batch',
                   'abandoned-then-keep-indexing only inside the property\'s carve-out']
    return finish(PROP, tier, seed, 'fault_enumeration', res, coverage, assumptions, started)


def run_case_wrapper(case, res):
    case = dict(case)
    if case['mode'] == 'die-before-copy-then-server':
        # die before set_flush_count, then the server starts (no resumed tool run)
        inner = dict(case, mode='die-before-copy')
        chain_name, max_rows, limit = inner['chain'], inner['rows'], inner['limit']
        m, sim, before, flush_count = build_db(chain_name)
        _RECIPES[id(sim)] = CHAINS[chain_name][0]
        failures = []
        if not carve_out_ok(before, max_rows, flush_count):
            res.count('die_before_copy_outside_carve_out_skipped')
            m.destroy()
            return
        try:
            w = open_compacting(m, max_rows)
            try:
                tool_loop(w, limit, stop_before_copy=True)
                compare_hist('history-changed-at-stop-point', read_histories(w.db.history), before,
                             failures)
            finally:
                w.close(destroy=False)
            res.count('stop_points')
            if not failures:
                continue_serving(m, sim, before, res, failures, 'die-before-copy-then-server',
                                 case.get('then'))
            res.count('executions')
            res.distinct('modes', case['mode'])
        finally:
            m.destroy()
        for field, detail in failures[:2]:
            res.violation(field, case, dict(field=field, **{a: b for a, b in detail.items()
                                                            if a in ('hashX', 'got', 'want', 'error')}))
        return
    run_case(case, res)


def replay(path):
    return common.standard_replay(PROP, path, run_case_wrapper)
