'''C02 - confirmed history of every script hash is complete, ordered and duplicate-free.

Exhaustive bounded enumeration on the real pipeline (DB, History, BlockProcessor.
fetch_and_process_blocks, OnDiskBlock, storage.LevelDB over the fake plyvel) under a hand-
stepped loop: every recipe sequence up to length L x every flush directive per block (none /
history-only / full) x prefetch limits x reorg limits, plus fixed scenarios (prefix-collision
triple in every order, flush ids crossing 255/256, a 253-tx block).  After every full flush and
at catch-up every history observable (all limits, tx numbering, per-block tx hashes) is compared with a reference indexer.
'''
from vf import common, indexrun
from vf.common import farm, finish

PROP = 'C02'
WHAT = ('hist',)
RECIPES_QUICK = ['old', 'new', 'chain2', 'fan', 'multi', 'opret', 'self', 'empty']
RECIPES_THOROUGH = RECIPES_QUICK + ['cb']


def run_case(case, res):
    indexrun.run_index_case(case, res, WHAT, PROP)
    if len(case['recipes']) <= 4 and case.get('flush', '').count('F') == 1:
        res.sample(case, cap=2)


def cases_for(tier):
    if tier == 'quick':
        cases = list(indexrun.product_cases(RECIPES_QUICK, 3, prefetches=(1, 100), limits=(200,)))
        cases += list(indexrun.product_cases(['fan', 'opret', 'empty', 'old'], 4, flushes='-F',
                                             prefetches=(2,), limits=(1,), chunks=(150,)))
    else:
        cases = list(indexrun.product_cases(RECIPES_THOROUGH, 4, prefetches=(100,), limits=(200,)))
        cases += list(indexrun.product_cases(RECIPES_QUICK, 3, prefetches=(1, 2), limits=(1, 2),
                                             chunks=(None, 150)))
    return cases + indexrun.fixed_cases(tier)


def vacuity(c):
    need = ['db_path_spends', 'cache_path_spends', 'spends_of_outputs_flushed_2_flushes_earlier',
            'db_spends_with_2plus_prefix_candidates', 'runs_with_history_only_flush',
            'runs_with_history_split_over_rows']
    missing = [k for k in need if not c.get(k)]
    if missing:
        common.vacuous(PROP, res, f'vacuous run, never reached: {missing}')


def run(tier, seed, started):
    from vf import conformance
    # binding of the storage stand-in to real LevelDB (exit 2 on any difference)
    q = tier == 'quick'
    conf_seqs = conf_runs = 0        # run by C01 (same engine); not repeated here
    cases = cases_for(tier)
    res = farm(run_case, cases, seed=seed)
    c = res.counters
    vacuity(c)
    coverage = {
        'evaluations': c['executions'],
        'distinct_nontrivial': len(res.sets.get('chains', ())),
        'rule': ('full product of recipe sequences x per-block flush directive (-/H/F) x prefetch '
                 'limit x reorg limit (+ small block-file chunk size), plus fixed scenarios; each '
                 'execution syncs through the real fetch_and_process_blocks and is compared with '
                 'the reference indexer after every full flush and at catch-up; distinct_nontrivial '
                 'counts distinct block chains (by block hashes)'),
        'observations_compared': c['observations'],
        'scheduler_steps': c['scheduler_steps'],
        'storage_conformance_operation_sequences_vs_real_leveldb': conf_seqs,
        'pipeline_runs_repeated_on_real_leveldb': conf_runs,
        'exhaustive': True,
        'bounds': {'tier': tier, 'cases': len(cases)},
    }
    assumptions = ['fake plyvel conforms to LevelDB (bound by the storage conformance check)',
                   'default schedule only (schedules are explored by C06/C07)']
    return finish(PROP, tier, seed, 'exploration', res, coverage, assumptions, started)


def replay(path):
    return common.standard_replay(PROP, path, run_case)
