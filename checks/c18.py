'''C18 - daemon calls ride out transient faults and return only genuine results.

Exhaustive enumeration of fault sequences on the real electrumx.server.daemon.Daemon with a
scripted HTTP session under the hand-stepped loop (virtual clock): every sequence over the
fault alphabet up to a length bound, for 1..3 daemon URLs, several back-off ladders (public
constructor parameters, so that fail-over is crossed within the bound), for single calls,
vector calls with and without error replacement, and block-to-file streaming (faults also
after k streamed chunks).
Oracle (from the documented policy, observed from outside: URLs requested, virtual time
between attempts, return value / exception, file content): the call returns the fake
bitcoind's real answer after exactly one attempt per fault; back-off never exceeds max_retry
and never shrinks while staying on a URL; with several URLs an error at maximum back-off moves
to the next URL round-robin and nothing else does; a genuine RPC error is raised with zero
retries; vector results are positionally aligned; the block file equals the block.
'''
import itertools
import json
import os
import shutil

from vf import common
from vf.common import farm, finish

PROP = 'C18'
FAULTS = ('timeout', 'disconnected', 'reset', 'connproblem', 'clienterror', 'refused', 'warmup')
LADDERS = {'default': (0.25, 4.0), 'short': (2.0, 4.0), 'flat': (4.0, 4.0)}
BLOCK = bytes(range(256)) * 9 + b'tail'
_TMP = None


def tmpdir():
    global _TMP
    if _TMP is None:
        _TMP = os.path.join(common.SHM, f'vf-c18-{os.getpid()}')
        os.makedirs(_TMP, exist_ok=True)
    return _TMP


class FakeBitcoind:
    height = 812
    mempool = ['aa' * 32, 'bb' * 32, 'cc' * 32]
    txs = {'aa' * 32: '01aa', 'cc' * 32: '01cc', 'dd' * 32: '01dd'}
    # a long vector (more than any batching a caller or the daemon layer might apply): every
    # transaction different, every third one unknown to the daemon
    MANY = ['%064x' % (1000 + i) for i in range(130)]
    txs.update({h: '02%04x' % i for i, h in enumerate(MANY) if i % 3})

    def answer(self, req):
        m, p = req['method'], req.get('params', ())
        if m == 'getblockcount':
            return self.height, None
        if m == 'getblockhash':
            if 0 <= p[0] <= self.height:
                return '%064x' % (p[0] * 7919 + 1), None
            return None, {'code': -8, 'message': 'Block height out of range'}
        if m == 'getrawmempool':
            return list(self.mempool), None
        if m == 'getrawtransaction':
            if p[0] in self.txs:
                return self.txs[p[0]], None
            return None, {'code': -5, 'message': 'No such mempool or blockchain transaction'}
        if m == 'sendrawtransaction':
            if p[0].startswith('00'):
                return None, {'code': -22, 'message': 'TX decode failed'}
            return 'ee' * 32, None
        return None, {'code': -32601, 'message': 'Method not found'}

    def reply(self, payload):
        if isinstance(payload, list):
            out = []
            for req in payload:
                r, e = self.answer(req)
                out.append({'result': r, 'error': e, 'id': req['id']})
            return out
        r, e = self.answer(payload)
        return {'result': r, 'error': e, 'id': payload['id']}


class Content:
    def __init__(self, chunks, exc_after):
        self.chunks, self.exc_after = chunks, exc_after

    def iter_chunks(self):
        async def gen():
            for i, c in enumerate(self.chunks):
                if self.exc_after is not None and i == self.exc_after[0]:
                    raise self.exc_after[1]
                yield c, True
            if self.exc_after is not None and self.exc_after[0] >= len(self.chunks):
                raise self.exc_after[1]
        return gen()


class Resp:
    def __init__(self, ctype, obj=None, text='', reason='Forbidden', content=None):
        self.headers = {'Content-Type': ctype} if ctype else {}
        self._obj, self._text, self.reason, self.content = obj, text, reason, content

    async def json(self):
        return self._obj

    async def text(self):
        return self._text


class Ctx:
    def __init__(self, resp=None, exc=None):
        self.resp, self.exc = resp, exc

    async def __aenter__(self):
        if self.exc is not None:
            raise self.exc
        return self.resp

    async def __aexit__(self, *a):
        return False


def make_fault(name):
    import asyncio
    import aiohttp
    return {
        'timeout': lambda: asyncio.TimeoutError(),
        'disconnected': lambda: aiohttp.ServerDisconnectedError(),
        'reset': lambda: ConnectionResetError('reset by peer'),
        'connproblem': lambda: aiohttp.ClientConnectionError('cannot connect'),
        'clienterror': lambda: aiohttp.ClientPayloadError('bad payload'),
    }[name]()


class Session:
    '''Scripted aiohttp.ClientSession: one scripted outcome per request, then the real answer.'''

    def __init__(self, loop, script, bitcoind, chunk_faults=False):
        self.loop, self.script, self.bitcoind = loop, list(script), bitcoind
        self.requests = []          # (virtual time, url)
        self.chunk_faults = chunk_faults

    def _next(self):
        return self.script.pop(0) if self.script else None

    def post(self, url, data=None):
        self.requests.append((self.loop.time(), url))
        f = self._next()
        payload = json.loads(data)
        if f is None:
            return Ctx(Resp('application/json', self.bitcoind.reply(payload)))
        if f == 'refused':
            return Ctx(Resp('text/html', text='  Work queue depth exceeded \n'))
        if f == 'warmup':
            err = {'code': -28, 'message': 'Loading block index...'}
            if isinstance(payload, list):
                obj = [{'result': None, 'error': err, 'id': r['id']} for r in payload]
            else:
                obj = {'result': None, 'error': err, 'id': payload['id']}
            return Ctx(Resp('application/json', obj))
        return Ctx(exc=make_fault(f))

    def get(self, url):
        self.requests.append((self.loop.time(), url))
        f = self._next()
        chunks = [BLOCK[i:i + 700] for i in range(0, len(BLOCK), 700)]
        if f is None:
            return Ctx(Resp('application/octet-stream', content=Content(chunks, None)))
        if f in ('refused', 'warmup'):
            return Ctx(Resp('text/plain' if f == 'refused' else None, text='', reason='Not ready'))
        if isinstance(f, tuple):                # fault after k streamed chunks
            name, k = f
            return Ctx(Resp('application/octet-stream', content=Content(chunks, (k, make_fault(name)))))
        return Ctx(exc=make_fault(f))

    async def close(self):
        pass


CALLS = {
    'height': lambda d: d.height(),
    'hashes': lambda d: d.block_hex_hashes(5, 4),
    'mempool': lambda d: d.mempool_hashes(),
    'rawtxs': lambda d: d.getrawtransactions(['aa' * 32, 'bb' * 32, 'cc' * 32, 'dd' * 32]),
    'rawtxs-strict': lambda d: d.getrawtransactions(['aa' * 32, 'cc' * 32, 'dd' * 32],
                                                    replace_errs=False),
    'rawtxs-strict-err': lambda d: d.getrawtransactions(['aa' * 32, 'bb' * 32], replace_errs=False),
    'rawtxs-many': lambda d: d.getrawtransactions(list(FakeBitcoind.MANY)),
    'rawtx': lambda d: d.getrawtransaction('cc' * 32),
    'rawtx-err': lambda d: d.getrawtransaction('bb' * 32),
    'broadcast': lambda d: d.broadcast_transaction('0100beef'),
    'broadcast-err': lambda d: d.broadcast_transaction('00bad'),
    'hashes-err': lambda d: d.block_hex_hashes(811, 4),
    'empty-vector': lambda d: d.block_hex_hashes(5, 0),
    'block': None,
}
B = FakeBitcoind()
EXPECT = {
    'height': ('ok', 812),
    'hashes': ('ok', ['%064x' % (h * 7919 + 1) for h in range(5, 9)]),
    'mempool': ('ok', B.mempool),
    'rawtxs': ('ok', [bytes.fromhex('01aa'), None, bytes.fromhex('01cc'), bytes.fromhex('01dd')]),
    'rawtxs-strict': ('ok', [bytes.fromhex('01aa'), bytes.fromhex('01cc'), bytes.fromhex('01dd')]),
    'rawtxs-strict-err': ('DaemonError', None),
    'rawtxs-many': ('ok', [bytes.fromhex('02%04x' % i) if i % 3 else None for i in range(130)]),
    'rawtx': ('ok', '01cc'),
    'rawtx-err': ('DaemonError', None),
    'broadcast': ('ok', 'ee' * 32),
    'broadcast-err': ('DaemonError', None),
    'hashes-err': ('DaemonError', None),
    'empty-vector': ('ok', []),
    'block': ('ok', len(BLOCK)),
}


def run_one(call, nurls, ladder, faults):
    from electrumx.lib.coins import BitcoinSVRegtest
    from electrumx.server import daemon as dmod
    from vf.vloop import VLoop
    loop = VLoop()
    loop.enter()
    try:
        urls = ','.join(f'http://u:p@host{i}:8332/' for i in range(nurls))
        init, mx = LADDERS[ladder]
        d = dmod.Daemon(BitcoinSVRegtest, urls, init_retry=init, max_retry=mx)
        sess = Session(loop, faults, B)
        d.session = sess
        fname = None
        if call == 'block':
            fname = os.path.join(tmpdir(), f'blk-{os.getpid()}')
            coro = d.get_block('ab' * 32, fname)
        else:
            coro = CALLS[call](d)
        task = loop.create_task(coro)
        loop.run_default(until=task.done, max_steps=20000)
        if not task.done():
            return dict(outcome=('hung', None), requests=sess.requests, url_after=d.current_url())
        exc = task.exception()
        if exc is not None:
            outcome = (type(exc).__name__, None)
        else:
            outcome = ('ok', task.result())
        data = None
        if fname:
            with open(fname, 'rb') as f:
                data = f.read()
        return dict(outcome=outcome, requests=sess.requests, url_after=d.current_url(),
                    file=data, leftover=len(sess.script), urls=list(d.urls))
    finally:
        loop.close()


def judge(call, nurls, ladder, faults, r):
    init, mx = LADDERS[ladder]
    bad = []
    want_kind, want_val = EXPECT[call]
    nf = len(faults)
    if call == 'empty-vector':
        # nothing is sent for an empty vector
        if r['outcome'] != ('ok', []) or r['requests']:
            bad.append(('empty-vector', r['outcome']))
        return bad
    if r['outcome'][0] != want_kind or (want_kind == 'ok' and r['outcome'][1] != want_val):
        bad.append(('wrong-result', dict(got=r['outcome'], want=(want_kind, want_val))))
    if call == 'rawtxs-many':
        # only the aligned result is demanded of a long vector: how many HTTP requests carry it
        # is the daemon layer's business
        return bad
    if len(r['requests']) != nf + 1 or r['leftover']:
        bad.append(('attempts', dict(got=len(r['requests']), want=nf + 1)))
        return bad
    if call == 'block' and want_kind == 'ok' and r['file'] != BLOCK:
        bad.append(('block-file-differs', dict(size=len(r['file'] or b''), want=len(BLOCK))))
    urls = r['urls']
    idx = [urls.index(u if not u.endswith('.bin') else u[:u.index('rest/')]) for _t, u in r['requests']]
    times = [t for t, _u in r['requests']]
    sleeps = [b - a for a, b in zip(times, times[1:])]
    if idx[0] != 0:
        bad.append(('first-url', idx[0]))
    # reference automaton of the documented policy: the back-off doubles from init_retry to
    # max_retry; an error met while the back-off is at its maximum moves to the next URL
    # round-robin (when there is one) and restarts the back-off
    retry, cur, want_idx = init, 0, [0]
    for _ in range(nf):
        if retry == mx and nurls > 1:
            cur = (cur + 1) % nurls
            retry = 0
        retry = max(min(mx, retry * 2), init)
        want_idx.append(cur)
    if idx != want_idx:
        first = next(k for k in range(len(idx)) if idx[k] != want_idx[k])
        what = 'failover-too-early' if idx[first] != idx[first - 1] else 'no-failover-at-max-backoff'
        if idx[first] != idx[first - 1] and idx[first] != (idx[first - 1] + 1) % nurls:
            what = 'failover-not-round-robin'
        bad.append((what, dict(urls=idx, want=want_idx, sleeps=sleeps)))
    for i, s in enumerate(sleeps):
        moved = idx[i + 1] != idx[i]
        if s > mx + 1e-9:
            bad.append(('backoff-above-max', dict(sleep=s)))
        if not moved and s <= 0:
            bad.append(('retry-without-backoff', dict(sleeps=sleeps, urls=idx)))
        if not moved and i > 0 and idx[i] == idx[i - 1] and s + 1e-9 < sleeps[i - 1]:
            bad.append(('backoff-shrank-on-same-url', dict(sleeps=sleeps, urls=idx)))
    if urls.index(r['url_after']) != idx[-1]:
        bad.append(('current-url-after', {}))
    return bad


def case_sequence(case, res):
    '''Two calls on ONE Daemon object with the daemon's state changing in between (its height
    falls: a reorganisation to a shorter chain, a fail-over to a daemon that lags): the second
    answer must be what the daemon says NOW.'''
    from electrumx.lib.coins import BitcoinSVRegtest
    from electrumx.server import daemon as dmod
    from vf.vloop import VLoop
    nurls, drop = case['nurls'], case['drop']
    for faults in itertools.chain(*(itertools.product(FAULTS, repeat=n) for n in range(0, 3))):
        loop = VLoop()
        loop.enter()
        saved = B.height
        try:
            urls = ','.join(f'http://u:p@host{i}:8332/' for i in range(nurls))
            d = dmod.Daemon(BitcoinSVRegtest, urls, init_retry=0.25, max_retry=4)
            d.session = Session(loop, (), B)
            t1 = loop.create_task(d.height())
            loop.run_default(until=t1.done, max_steps=20000)
            B.height = saved - drop
            d.session = Session(loop, faults, B)
            t2 = loop.create_task(d.height())
            loop.run_default(until=t2.done, max_steps=20000)
            res.count('executions')
            res.count('call_sequences')
            got = (t1.result() if t1.done() and not t1.exception() else 'failed',
                   t2.result() if t2.done() and not t2.exception() else 'failed', d.cached_height())
            want = (saved, saved - drop, saved - drop)
            if got != want:
                res.violation('stale-answer-after-the-daemon-changed', dict(case, faults=list(faults)),
                              dict(got=list(got), want=list(want), faults=list(faults)))
        finally:
            B.height = saved
            loop.close()


def case_set_url(case, res):
    '''The operator's daemon_url command with a malformed URL anywhere in the list is refused
    and must leave the working configuration alone: calls go on as before.'''
    from electrumx.lib.coins import BitcoinSVRegtest
    from electrumx.server import daemon as dmod
    from vf.vloop import VLoop
    for nurls in (1, 2, 3):
        for bad_at in range(0, 3):
            for faults in itertools.chain(*(itertools.product(FAULTS[:3], repeat=n) for n in range(0, 2))):
                loop = VLoop()
                loop.enter()
                try:
                    urls = ','.join(f'http://u:p@host{i}:8332/' for i in range(nurls))
                    d = dmod.Daemon(BitcoinSVRegtest, urls, init_retry=0.25, max_retry=4)
                    before = (list(d.urls), d.url_index)
                    new = [f'http://u:p@other{i}:8332/' for i in range(bad_at)] + ['no t a url !']
                    refused = False
                    try:
                        d.set_url(','.join(new))
                    except Exception:       # noqa - CoinError
                        refused = True
                    res.count('executions')
                    res.count('call_sequences')
                    problem = None
                    if not refused:
                        problem = 'malformed-url-accepted'
                    elif (list(d.urls), d.url_index) != before:
                        problem = 'refused-set_url-changed-the-configuration'
                    else:
                        d.session = Session(loop, faults, B)
                        t = loop.create_task(d.height())
                        loop.run_default(until=t.done, max_steps=20000)
                        if not t.done() or t.exception() or t.result() != B.height:
                            problem = 'call-fails-after-refused-set_url'
                    if problem:
                        res.violation(problem, dict(case, nurls=nurls, bad_at=bad_at),
                                      dict(urls_before=before[0], urls_after=list(d.urls)))
                        return
                finally:
                    loop.close()
    # an ACCEPTED change of the URL list after earlier fail-overs: the next call succeeds and
    # goes to the first URL of the new list
    for nurls in (1, 2, 3):
        for failovers in range(0, nurls):
            for nnew in (1, 2, 3):
                loop = VLoop()
                loop.enter()
                try:
                    urls = ','.join(f'http://u:p@host{i}:8332/' for i in range(nurls))
                    d = dmod.Daemon(BitcoinSVRegtest, urls, init_retry=0.25, max_retry=4)
                    # the real fail-over path: a call that meets 5 faults per dead URL
                    d.session = Session(loop, ['disconnected'] * (5 * failovers), B)
                    t = loop.create_task(d.height())
                    loop.run_default(until=t.done, max_steps=20000)
                    moved = d.url_index
                    problem = None
                    try:
                        d.set_url(','.join(f'http://u:p@other{i}:8332/' for i in range(nnew)))
                    except Exception as e:       # noqa
                        problem = f'good-url-list-refused:{type(e).__name__}'
                    res.count('executions')
                    res.count('call_sequences')
                    if not problem:
                        d.session = Session(loop, [], B)
                        t = loop.create_task(d.height())
                        loop.run_default(until=t.done, max_steps=20000)
                        if not t.done() or t.exception() or t.result() != B.height:
                            problem = 'call-fails-after-accepted-set_url'
                        elif 'other0' not in d.session.requests[0][1]:
                            problem = 'call-after-set_url-not-sent-to-the-first-new-url'
                    if problem:
                        res.violation(problem, dict(case, nurls=nurls, failovers=failovers, nnew=nnew),
                                      dict(url_index_before_set_url=moved, urls_after=list(d.urls),
                                           error=repr(t.exception()) if t.done() and not t.cancelled()
                                           and t.exception() else None))
                        return
                finally:
                    loop.close()


def run_case(case, res):
    if 'set_url' in case:
        return case_set_url(case, res)
    if 'drop' in case:
        return case_sequence(case, res)
    call, nurls, ladder = case['call'], case['nurls'], case['ladder']
    seqs = [tuple(tuple(f) if isinstance(f, list) else f for f in case['faults'])] \
        if 'faults' in case else None
    if seqs is None:
        alpha = list(FAULTS)
        if call == 'block':
            alpha += [('disconnected', 0), ('clienterror', 2), ('timeout', 4)]
        seqs = []
        for n in range(case['minlen'], case['maxlen'] + 1):
            seqs.extend(itertools.product(alpha, repeat=n))
        seqs.extend(case.get('extra', []))
    for faults in seqs:
        r = run_one(call, nurls, ladder, faults)
        res.count('executions')
        res.count('requests', len(r['requests']))
        # vacuity is judged on what the REFERENCE policy says this sequence needs, not on what
        # the code under test happened to do
        init_, mx_ = LADDERS[ladder]
        retry_, fo_ = init_, 0
        for _f in faults:
            if retry_ == mx_ and nurls > 1:
                fo_ += 1
                retry_ = 0
            retry_ = max(min(mx_, retry_ * 2), init_)
        res.maxi('failovers', fo_)
        if len(faults) >= 1:
            res.count('with_faults')
        for what, detail in judge(call, nurls, ladder, faults, r)[:1]:
            res.violation(f'{what}', dict(call=call, nurls=nurls, ladder=ladder,
                                          faults=[list(f) if isinstance(f, tuple) else f
                                                  for f in faults]),
                          dict(call=call, nurls=nurls, ladder=ladder, faults=faults, what=what,
                               detail=detail, outcome=r['outcome'],
                               requests=[(round(t, 3), u[-24:]) for t, u in r['requests']]))
    res.distinct('configs', (call, nurls, ladder))
    if call == 'rawtxs' and nurls == 2 and ladder == 'short':
        res.sample({'call': call, 'nurls': nurls, 'ladder': LADDERS[ladder],
                    'example_faults': list(seqs[-1]), 'sequences': len(seqs)})


def cases_for(tier):
    q = tier == 'quick'
    cases = [dict(nurls=n, drop=dr) for n in (1, 2) for dr in (-2, 0, 1, 3)] + [dict(set_url=True)]
    main_calls = ['height', 'rawtxs', 'rawtxs-strict', 'block']
    other_calls = [c for c in CALLS if c not in main_calls]
    long_extra = []
    for f in FAULTS:                                   # long single-fault runs cross two fail-overs
        for n in (6, 7, 12, 13, 14):
            long_extra.append((f,) * n)
    for a, b in itertools.permutations(FAULTS, 2):
        long_extra.append((a, b) * 7)
        long_extra.append((a,) * 5 + (b,) * 2 + (a,) * 6)
    for nurls in (1, 2, 3):
        for call in main_calls:
            cases.append(dict(call=call, nurls=nurls, ladder='default', minlen=0,
                              maxlen=3 if q else 4, extra=long_extra))
            for n in range(0, (5 if q else 6) + 1):
                if call != 'height' and n > (4 if q else 5):
                    continue
                cases.append(dict(call=call, nurls=nurls, ladder='short', minlen=n, maxlen=n))
            cases.append(dict(call=call, nurls=nurls, ladder='flat', minlen=0, maxlen=3 if q else 4))
        for call in other_calls:
            cases.append(dict(call=call, nurls=nurls, ladder='short', minlen=0, maxlen=3,
                              extra=long_extra[:20]))
    return cases


def run(tier, seed, started):
    cases = cases_for(tier)
    res = farm(run_case, cases, seed=seed, chunk=1)
    if _TMP:
        shutil.rmtree(_TMP, ignore_errors=True)
    c = res.counters
    if c.get('executions', 0) < 20000 or c.get('max:failovers', 0) < 2:
        common.vacuous(PROP, res, f'vacuous C18 run: {c}')
    coverage = {
        'evaluations': c['executions'],
        'distinct_nontrivial': c['with_faults'],
        'rule': ('every fault sequence over {timeout, disconnected, reset, connection problem, client '
                 'error, service refused, warming up} (+ faults after k streamed chunks for get_block) '
                 'up to the length bound, x 1..3 URLs x back-off ladders (0.25..4 default, 2..4, 4..4) '
                 'x calls; plus long single- and two-fault runs (up to 14 faults) crossing two '
                 'fail-overs on the default ladder; non-trivial = at least one fault injected'),
        'http_requests_observed': c['requests'],
        'max_failovers_required_by_a_sequence': c.get('max:failovers'),
        'exhaustive': True,
        'bounds': {'tier': tier, 'cases': len(cases)},
    }
    assumptions = ['the daemon answers a batch in request order (bitcoind does)',
                   'aiohttp is replaced by a scripted session below Daemon._post_json/_get_to_file']
    return finish(PROP, tier, seed, 'exploration', res, coverage, assumptions, started)


def replay(path):
    code = common.standard_replay(PROP, path, run_case)
    if _TMP:
        shutil.rmtree(_TMP, ignore_errors=True)
    return code
