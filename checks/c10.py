'''C10 - answers served to clients are never stale once the server is quiescent.

Same engine and scenario family as C07 (stateless schedule exploration of the full system with
iterative deviation bounding), with cache-populating queries placed before the events (history
of every watched script, id_from_pos at the top heights), in the middle of them (also while
blocks are undone) and before the last timers.
Oracle at quiescence, asked both by the client that made the earlier queries and by a fresh
client: get_history (confirmed part ordered, mempool part as a set with fee and flag),
get_mempool, get_balance, listunspent for every watched script and id_from_pos for every
position of the top four heights equal the answer implied by the daemon's final chain and
mempool; positions beyond a block and heights beyond the tip are refused.
Part B (vf/slicedsys.py): worker jobs are not atomic in the server - the same oracle after the
cache-populating queries were served at EVERY slice point (storage / file operation) of every
advance_block / backup_block / flush_dbs job of 9 scenarios.
'''
from vf import common, explore, fullrun, slicedsys
from vf.common import farm, finish

PROP = 'C10'
SLICED = ('enter-confirm', 'two-blocks', 'reorg-return', 'reorg-reconfirm', 'reorg-vanish-depth2',
          'reorg-depth2-distinct-scripts', 'forced-switched', 'pressure-flush', 'untouched-block')


def inject_queries(variant):
    '''Cache-populating queries by client c2, served in the middle of a worker job.'''
    def f(s):
        c = s.x_clients['c2']
        tip = len(s.x_blocks) - 1
        if variant == 0:
            for k in fullrun.WATCH:
                c.request('blockchain.scripthash.get_history', [fullrun.sh(k)])
            c.request('blockchain.scripthash.listunspent', [fullrun.sh('A')])
        else:
            for h in (tip - 1, tip, tip + 1):
                for pos in (0, 1):
                    c.request('blockchain.transaction.id_from_pos', [h, pos, False])
                c.request('blockchain.transaction.id_from_pos', [h, 1, True])
            c.request('blockchain.scripthash.get_history', [fullrun.sh('A')])
            c.request('blockchain.scripthash.get_balance', [fullrun.sh('D')])
    return f


def case_sliced(case, res):
    '''Part B: the queries are served at slice point k of the mutating worker jobs.'''
    scn = fullrun.scenarios()[case['scenario']]

    def judge(run):
        out = [(k + ':' + case['scenario'] + ':served-mid-job', d)
               for k, d in fullrun.judge_c10(run, res)]
        # a query served in the middle of a job may be refused, but not with an internal error
        for m in run.s.x_clients['c2'].messages:
            if isinstance(m.get('error'), dict) and m['error'].get('code') == -32603:
                sent = {x['id']: x for x in run.s.x_clients['c2'].x_sent}.get(m.get('id'), {})
                out.append(('query-served-mid-job-ended-in-internal-error:' + case['scenario'],
                            dict(method=sent.get('method'), params=str(sent.get('params'))[:80])))
                break
        return out

    if case.get('torn'):
        # the queries' own reads are torn by the mutation (split mode of vf/slicedsys.py)
        found = slicedsys.enumerate_splits(
            lambda: fullrun.make(scn, immediate=True), lambda s: scn['script'](),
            inject_queries(case['variant']), judge, res, case['scenario'], closing_ticks=12,
            only=case.get('kib'), i_max=3, b_set=(1, 3, 6, 12))
        for kib, key, detail in found:
            res.violation(key.replace(':served-mid-job', ':read-torn-by-a-job'),
                          dict(case, kib=list(kib)), detail)
        return
    found = slicedsys.enumerate_points(
        lambda: fullrun.make(scn, immediate=True), lambda s: scn['script'](),
        inject_queries(case['variant']), judge, res, case['scenario'], closing_ticks=12,
        only_k=case.get('k'))
    for k, key, detail in found:
        res.violation(key, dict(case, k=k), detail)
    res.distinct('sliced_scenarios', case['scenario'])


def run_case(case, res):
    if 'sliced' in case:
        return case_sliced(case, res)
    scn = fullrun.c10_scenarios()[case['scenario']]

    def judge(run):
        return [(k + ':' + case['scenario'], d) for k, d in fullrun.judge_c10(run, res)]

    explore.explore(lambda: fullrun.make(scn), lambda s: scn['script'](), case['bound'], judge, res,
                    dict(case), only=case.get('choices'), closing_ticks=12,
                    shard=case.get('shard'))
    res.distinct('scenarios', case['scenario'])
    if case['scenario'] == 'forced-unchanged':
        res.sample({'scenario': case['scenario'], 'bound': case['bound']}, cap=1)


BOUND2 = ('forced-unchanged', 'late-subscribe', 'lonely-read', 'untouched-block')


def cases_for(tier):
    names = list(fullrun.c10_scenarios())
    cases = [dict(scenario=name, bound=1, shard=[i, 6]) for name in names for i in range(6)]
    if tier != 'quick':
        cases = [c for c in cases if c['scenario'] not in BOUND2]
        cases += [dict(scenario=name, bound=2, shard=[i, 16]) for name in BOUND2 for i in range(16)]
    for name in SLICED:
        for variant in (0, 1):
            cases.append(dict(sliced=True, scenario=name, variant=variant))
    for name in (('two-blocks', 'reorg-vanish-depth2') if tier == 'quick' else SLICED):
        for variant in (0, 1):
            cases.append(dict(sliced=True, torn=True, scenario=name, variant=variant))
    return cases


def run(tier, seed, started):
    common.setup_imports()
    cases = cases_for(tier)
    res = farm(run_case, cases, seed=seed, chunk=1)
    c = res.counters
    kinds = res.sets.get('deviation_kinds', set())
    if c.get('executions', 0) < 300 or not {'next', 'hold', 'stall'} <= kinds or \
            c.get('queries_judged', 0) < 10000 or c.get('sliced_executions', 0) < 200 or \
            len(res.sets.get('slice_sites', ())) < 6:
        common.vacuous(PROP, res, f'vacuous C10 run: {c} {kinds}')
    coverage = {
        'evaluations': c['executions'] + c['sliced_executions'],
        'distinct_nontrivial': len(res.sets.get('schedules', ())),
        'rule': ('16 scenarios (C07 family + queries before / during / after the events) x every '
                 'choice vector with total deviation cost <= bound; distinct = (scenario, vector)'),
        'deviation_bound_completed': 1 if tier == 'quick' else '2 on ' + ', '.join(BOUND2) + '; 1 on the others',
        'choice_points': c['choice_points'], 'queries_judged_at_quiescence': c['queries_judged'],
        'sliced_executions(queries served mid-job)': c['sliced_executions'],
        'torn_read_executions': c.get('torn_read_executions', 0),
        'slice_sites': sorted(map(str, res.sets.get('slice_sites', ()))),
        'deviation_kinds_used': sorted(kinds),
        'exhaustive': c.get('exploration_cap_hits', 0) == 0,
    }
    assumptions = ['choice points only where the loop\'s ready queue is empty', 'worker jobs atomic',
                   'protocol time-outs never fire']
    return finish(PROP, tier, seed, 'exploration', res, coverage, assumptions, started)


def replay(path):
    return common.standard_replay(PROP, path, run_case)
