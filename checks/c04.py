'''C04 - a crash at any point while indexing forward loses nothing that was committed.

Fault enumeration: each scenario (chain x flush schedule x optional clean restart in the middle)
is run once on the real pipeline while every durable effect is logged; then for EVERY prefix of
that log, and for torn prefixes of the file write in progress, the post-crash machine is rebuilt,
opened by fresh real objects (open_for_sync), observed, and the sync is resumed to the end.
Crash points inside the recovery's own writes are enumerated one level deep.
Oracle: open succeeds at a height some completed or in-progress full flush had committed, not
below the last completed one; every observable equals the reference index at that height; the
resumed run ends exactly like the uninterrupted one.
'''
import itertools

from vf import common, crashrun, indexrun, observe, world
from vf.common import farm, finish

PROP = 'C04'
ACT = indexrun.ACTIVATION


def record(case):
    sim = indexrun.chain_for(case['recipes'])
    blocks = sim.blocks
    fmap = indexrun.flush_map(case['flush'])
    wparams = dict(reorg_limit=case.get('limit', 200), activation=ACT,
                   prefetch=case.get('prefetch', 100), small_files=case.get('small_files', False))
    m0 = world.Machine()
    marks = []
    restart_at = case.get('restart_at')
    try:
        if restart_at:
            # phase 1: sync to restart_at and stop cleanly; crash points are taken in phase 2
            w = world.World(m0, **wparams)
            w.daemon.set_chain(blocks[:restart_at + 1])
            w.flush_schedule = fmap
            w.start_sync()
            try:
                w.run_until_caught_up()
            except (world.SyncFailed, world.Stalled) as e:
                raise UninterruptedWrong('the run before the restart died: ' +
                                         repr(e.args[0] if e.args else e)[:200])
            w.close(destroy=False)
            marks.append((0, restart_at))
            m0.log.clear()
        snapshot = m0.snapshot()
        w = world.World(m0, **wparams)
        grow_at = case.get('grow_at')
        w.daemon.set_chain(blocks if not grow_at else blocks[:grow_at + 1])
        w.flush_schedule = fmap
        w.on_full_flush = lambda w: marks.append((len(m0.log), w.db.state.height))
        w.start_sync()
        try:
            w.run_until_caught_up()
            if grow_at:
                w.daemon.set_chain(blocks)
                w.poll()
        except (world.SyncFailed, world.Stalled) as e:
            raise UninterruptedWrong('the uninterrupted run died: ' +
                                     repr(e.args[0] if e.args else e)[:200])
        ref_final = observe.ref_at(blocks, len(blocks) - 1, ACT)
        obs_final = observe.observe(w, ref_final, what=crashrun.WHAT)
        bad = observe.compare(obs_final, ref_final, crashrun.WHAT)
        obs_final['undo_window'] = crashrun.undo_window(w, wparams['reorg_limit'])
        if bad or not w.at_daemon_tip():
            raise UninterruptedWrong(repr(bad[:1])[:300])
        batch_sizes = dict(m0.stores.batch_sizes)
        log = list(m0.log)
        w.close(destroy=False)
    finally:
        m0.destroy()
    return dict(blocks=blocks, fmap=fmap, params=dict(world=wparams), snapshot=snapshot, log=log,
                marks=marks, obs_final=obs_final, ref_final=ref_final, batch_sizes=batch_sizes)


class UninterruptedWrong(Exception):
    pass


def fault_in_batch(case, rec, res):
    '''An exception in the middle of building a write batch (it propagates, the processing task
    dies, the process exits): the batch must not have been written in part.  Re-runs the
    scenario once per batch with the fault injected at its middle operation.'''
    if case.get('restart_at') or case.get('grow_at'):
        return
    blocks = rec['blocks']
    for number, size in sorted(rec['batch_sizes'].items()):
        if size < 2:
            continue
        m = world.Machine()
        failures = []
        try:
            m.stores.fault = (number, size // 2)
            w = world.World(m, **rec['params']['world'])
            w.daemon.set_chain(blocks)
            w.flush_schedule = dict(rec['fmap'])
            marks = [(0, -1)]
            w.on_full_flush = lambda w_: marks.append((len(m.log), w_.db.state.height))
            w.start_sync()
            try:
                w.run_until_caught_up()
                died = False
            except (world.SyncFailed, world.Stalled):
                died = True
            w.close(destroy=False)
            if not died:
                continue                    # the batch was never reached in this run
            allowed = {-1} | {h for _i, h in marks}
            crashrun.observe_open(m, blocks, rec['params'], res, failures, 'after-exception-in-batch',
                                  max(h for _i, h in marks), allowed, ACT)
            if not failures:
                crashrun.resume_and_compare(m, blocks, rec['params'], rec['fmap'], rec['obs_final'],
                                            rec['ref_final'], res, failures, 'after-exception-in-batch')
            res.count('crash_points')
            res.count('kind:exception-mid-batch')
        finally:
            m.destroy()
        for field, detail in failures[:1]:
            res.violation(f'{field}@exception-mid-batch', dict(case, fault_batch=number),
                          dict(batch=number, ops=size, **detail))


def check_point(rec, k, nbytes, res, case, nested=True):
    log, marks, blocks = rec['log'], rec['marks'], rec['blocks']
    allowed = {-1} | {h for _i, h in marks}
    min_height = max([h for i, h in marks if i <= k] or [-1])
    failures = []
    m = crashrun.open_after_crash(rec['snapshot'], log, k, nbytes, rec['params'])
    try:
        rec_log, height, _ = crashrun.observe_open(m, blocks, rec['params'], res, failures,
                                                   'restart', min_height, allowed, ACT)
        if not failures:
            crashrun.resume_and_compare(m, blocks, rec['params'], rec['fmap'], rec['obs_final'],
                                        rec['ref_final'], res, failures, 'restart')
    finally:
        m.destroy()
    kind = crashrun.kind_of(log, k, nbytes)
    res.count('crash_points')
    res.count('kind:' + kind.split(':')[0])
    res.distinct('kinds', kind)
    if height is not None:
        res.distinct('recovered_heights', height)
    if nested and rec_log and not failures:
        for j in range(len(rec_log)):
            m2 = crashrun.open_after_crash(rec['snapshot'], log, k, nbytes, rec['params'])
            try:
                for eff in rec_log[:j]:
                    m2.apply_effect(eff)
                f2 = []
                crashrun.observe_open(m2, blocks, rec['params'], res, f2, 'crash-in-recovery',
                                      min_height, allowed, ACT)
                if not f2:
                    crashrun.resume_and_compare(m2, blocks, rec['params'], rec['fmap'],
                                                rec['obs_final'], rec['ref_final'], res, f2,
                                                'crash-in-recovery')
                res.count('crash_points')
                res.count('kind:crash-during-recovery')
                failures.extend(f2)
            finally:
                m2.destroy()
    for field, detail in failures[:2]:
        res.violation(f'{field}@{kind}', dict(case, k=k, nbytes=nbytes),
                      dict(crash_point=k, torn_bytes=nbytes, kind=kind,
                           effect=_short(log[k]) if k < len(log) else None, **detail))


def _short(eff):
    if eff[0] == 'db':
        return ['db', eff[1], eff[2], f'{len(eff[3])} ops']
    if eff[0] == 'write':
        return ['write', eff[1], eff[2], f'{len(eff[3])} bytes']
    return list(eff)


def run_case(case, res):
    try:
        rec = record(case)
    except UninterruptedWrong as e:
        res.count('scenarios')
        res.violation('uninterrupted-run-already-wrong', case, dict(mismatch=str(e)))
        return
    log = rec['log']
    res.count('scenarios')
    res.count('effects', len(log))
    if 'k' in case:
        check_point(rec, case['k'], case['nbytes'], res, case)
        return
    # First-time creation of the databases and the meta directory is not "during block
    # processing or a flush"; crash points start once the first block is being fetched.
    lo = next((i for i, e in enumerate(log) if e[0] == 'create' and 'blocks/' in e[1]), 0)
    res.count('init_effects_skipped', lo)
    for k, nbytes in crashrun.crash_points(log, lo=lo):
        check_point(rec, k, nbytes, res, {x: case[x] for x in case})
    fault_in_batch(case, rec, res)
    res.sample({'scenario': case, 'effects': len(log),
                'log_head': [_short(e) for e in log[:12]]}, cap=1)


def cases_for(tier):
    q = tier == 'quick'
    chains = [['fan', 'chain2', 'old', 'multi', 'new'],
              ['old', 'self', 'col0', 'col1', 'scol0'],
              ['fan', 'opret', 'empty', 'new', 'old', 'chain2']]
    if not q:
        chains += [['chain2', 'fan', 'multi', 'self', 'old', 'new'],
                   ['new', 'new', 'old', 'fan', 'opret', 'multi', 'empty'],
                   ['col0', 'col1', 'col2', 'scol1', 'scol0', 'scol2']]
    cases = []
    for rs in chains:
        n = len(rs)
        pats = ['-' * n, 'F' * n, 'H' * n, ('HF' * n)[:n], ('HHF' * n)[:n], ('-F-H' * n)[:n],
                ('FH-' * n)[:n]]
        if not q:
            pats += [''.join(p) for p in itertools.product('-HF', repeat=min(n, 4))
                     if p.count('F') == 1 and p.count('H') >= 1]
        for fl in dict.fromkeys(pats):
            for pf in ((100,) if q else (100, 1)):
                cases.append(dict(recipes=rs, flush=fl, prefetch=pf))
        for restart_at in (2, 3):
            cases.append(dict(recipes=rs, flush=('HF-' * n)[:n], prefetch=100, restart_at=restart_at))
        # the last block before the clean restart got a history-only flush, so the shutdown /
        # catch-up flush that follows has no new history to write
        cases.append(dict(recipes=rs, flush=('HF-' * n)[:n], prefetch=100, restart_at=4))
        cases.append(dict(recipes=rs, flush=('-H' + 'F' * n)[:n], prefetch=100, restart_at=2))
        # no restart: the daemon is first at height g (catch-up, databases re-opened for
        # serving), then grows; crash points in the second part
        cases.append(dict(recipes=rs, flush=('-H' + 'FH' * n)[:n], prefetch=100, grow_at=2))
        cases.append(dict(recipes=rs, flush=('HF-H' + 'F' * n)[:n], prefetch=100, grow_at=4))
        # flat files split into tiny physical files (writes straddle file boundaries)
        cases.append(dict(recipes=rs, flush=('HFH' * n)[:n], prefetch=100, small_files=True))
        cases.append(dict(recipes=rs, flush=('-F' * n)[:n], prefetch=100, small_files=True, restart_at=3))
    return cases


NEED_KINDS = ['kind:exception-mid-batch', 'kind:before-hist-batch', 'kind:before-utxo-batch', 'kind:before-utxo-put',
              'kind:torn-file-write', 'kind:before-file-write', 'kind:before-create',
              'kind:crash-during-recovery', 'kind:after-last-effect']


def run(tier, seed, started):
    cases = cases_for(tier)
    res = farm(run_case, cases, seed=seed, chunk=1)
    c = res.counters
    missing = [k for k in NEED_KINDS if not c.get(k)]
    if missing or len(res.sets.get('recovered_heights', ())) < 3:
        common.vacuous(PROP, res, f'vacuous C04 run: missing {missing}; heights '
                            f'{res.sets.get("recovered_heights")}')
    coverage = {
        'evaluations': c['crash_points'],
        'distinct_nontrivial': len(res.sets.get('kinds', ())) + c['scenarios'],
        'rule': ('every prefix of the durable-effect log of every scenario, every torn prefix '
                 '(all for writes <= 48 bytes, else element boundaries +-1, half, end-1) of the '
                 'file write in progress, and every prefix of the recovery\'s own effects; '
                 'distinct_nontrivial = scenarios + distinct crash-point kinds'),
        'scenarios': c['scenarios'], 'durable_effects': c['effects'],
        'crash_points_by_kind': {k[5:]: v for k, v in sorted(c.items()) if k.startswith('kind:')},
        'recoveries_observed': c['recoveries_observed'], 'resumes_compared': c['resumes_compared'],
        'recovered_heights': sorted(res.sets.get('recovered_heights', ())),
        'exhaustive': True,
    }
    assumptions = ['crash = process death: completed effects persist, the one in progress is '
                   'absent, complete or (file writes) a byte prefix; a LevelDB batch or put is atomic',
                   'power loss (un-fsynced file data lost after a synced DB commit) is not modelled']
    return finish(PROP, tier, seed, 'fault_enumeration', res, coverage, assumptions, started)


def replay(path):
    return common.standard_replay(PROP, path, run_case)
