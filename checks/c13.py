'''C13 - transactions and blocks are parsed exactly, however the block file is chunked.

Part A (exhaustive inputs): transaction shapes over varint-width boundaries for input/output
counts and script lengths, empty scripts, extreme values; round trip through the real
Deserializer / Tx.serialize, hash over exactly the consumed bytes, and every proper prefix (all
of them up to 2 KB, every field boundary +-2 and a stride above) must fail to parse.
Part B (exhaustive configurations): block shapes x EVERY chunk size from the size of the count
varint to block size + 2 through real OnDiskBlock files: iter_txs yields exactly the
transactions in order, iter_txs_reversed exactly the reverse.
'''
import itertools
import os
import shutil
import struct

from vf import chain, common
from vf.common import farm, finish

PROP = 'C13'
COUNTS = (1, 2, 252, 253)
SCRIPT_LENS = (0, 1, 75, 76, 252, 253, 254, 65535, 65536)


def build_tx(nin, nout, siglen, pklen, variant):
    version, value, seq, lock, idx = {
        0: (1, 0, 0xffffffff, 0, 0),
        1: (-1, 1, 0, 0xffffffff, 0xffffffff),
        2: (2, 2 ** 63 - 1, 0xfffffffe, 1, 1),
        3: (-2 ** 31, 5000, 7, 500000, 0xfffffffe),
    }[variant]
    ins = [(bytes([i % 251 + 1]) * 32, idx if i == 0 else i, b'\x51' * (siglen if i == 0 else i % 3),
            seq) for i in range(nin)]
    outs = [(value if i == nout - 1 else i, b'\x52' * (pklen if i == nout - 1 else (i % 4)))
            for i in range(nout)]
    return chain.Tx(ins, outs, version=version, locktime=lock)


def field_offsets(tx):
    '''Offsets of every field boundary of the serialisation (independent of electrumx).'''
    offs = [0, 4]
    pos = 4 + len(chain.varint(len(tx.inputs)))
    offs.append(pos)
    for prev, idx, sig, seq in tx.inputs:
        for n in (32, 4, len(chain.varint(len(sig))), len(sig), 4):
            pos += n
            offs.append(pos)
    pos += len(chain.varint(len(tx.outputs)))
    offs.append(pos)
    for value, script in tx.outputs:
        for n in (8, len(chain.varint(len(script))), len(script)):
            pos += n
            offs.append(pos)
    pos += 4
    offs.append(pos)
    assert pos == len(tx.raw)
    return offs


def case_tx(case, res):
    from electrumx.lib.tx import Deserializer
    tx = build_tx(case['nin'], case['nout'], case['siglen'], case['pklen'], case['variant'])
    raw = tx.raw

    def bad(what, **kw):
        res.violation(f'tx:{what}', case, dict(what=what, size=len(raw), **kw))

    for pre, post in ((b'', b''), (b'\xab' * 3, b'\xff' * 9)):
        buf = pre + raw + post
        try:
            d = Deserializer(buf, start=len(pre))
            got, h = d.read_tx_and_hash()
        except Exception as e:          # noqa
            bad('parse-raises', error=repr(e))
            return
        if d.cursor != len(pre) + len(raw):
            bad('cursor', got=d.cursor, want=len(pre) + len(raw))
        if bytes(h) != tx.txid:
            bad('hash-not-over-consumed-bytes')
        try:
            if got.serialize() != raw:
                bad('serialize-roundtrip')
        except Exception as e:          # noqa
            bad('serialize-raises', error=repr(e))
        ok = (got.version == tx.version and got.locktime == tx.locktime
              and [(bytes(i.prev_hash), i.prev_idx, bytes(i.script), i.sequence)
                   for i in got.inputs] == tx.inputs
              and [(o.value, bytes(o.pk_script)) for o in got.outputs] == tx.outputs)
        if not ok:
            bad('fields')
    res.count('txs')
    res.distinct('tx_shapes', (case['nin'], case['nout'], case['siglen'], case['pklen']))
    # truncation
    n = len(raw)
    if n <= 1024:
        cuts = range(0, n)
    else:
        cuts = set()
        offs = field_offsets(tx)
        for o in offs[:16] + offs[-16:] + offs[16:-16:53]:
            cuts.update(range(o - 2, o + 3))
        cuts.update(range(0, n, 4999))
        cuts = sorted(c for c in cuts if 0 <= c < n)
        res.count('txs_with_truncation_cap')
    for k in cuts:
        res.count('truncations')
        try:
            d = Deserializer(raw[:k])
            d.read_tx_and_hash()
        except Exception:               # noqa - it failed, as it must
            continue
        bad('truncated-buffer-parsed', cut=k)
        break
    if case['variant'] == 2 and case['nin'] == 2 and case['siglen'] == 253:
        res.sample({'part': 'tx', 'case': case, 'size': n})


# ---- blocks -----------------------------------------------------------------------------------

def small_tx(i, extra=0):
    return chain.Tx([(bytes([i % 250 + 1]) * 32, i, b'\x51' * (i % 3), 0xffffffff)],
                    [(i, b'\x76' * (i % 5 + extra))])


def big_tx(i, size=1500):
    return chain.Tx([(bytes([i % 250 + 1]) * 32, i, b'\x51' * size, 0xffffffff)],
                    [(i, b'\x76' * 25), (1, b'')])


BLOCK_SHAPES = {
    'one': lambda: [small_tx(1)],
    'small3': lambda: [small_tx(i) for i in range(3)],
    'small-big-small': lambda: [small_tx(0), big_tx(1), small_tx(2)],
    'big-first': lambda: [big_tx(0), small_tx(1), small_tx(2)],
    'big-last': lambda: [small_tx(0), small_tx(1), big_tx(2)],
    'two-big': lambda: [big_tx(0, 700), big_tx(1, 900)],
    'small300': lambda: [small_tx(i) for i in range(300)],
    'varied': lambda: [small_tx(i, extra=(i * 37) % 90) for i in range(12)],
}
_DIR = None


def case_block(case, res):
    global _DIR
    from electrumx.server.block_processor import OnDiskBlock
    txs = BLOCK_SHAPES[case['shape']]()
    blk = chain.Block(5, bytes(32), txs)
    if _DIR is None:
        _DIR = os.path.join(common.SHM, f'vf-c13-{os.getpid()}')
        os.makedirs(os.path.join(_DIR, 'meta', 'blocks'), exist_ok=True)
    os.chdir(_DIR)
    fname = OnDiskBlock.filename(blk.hex_hash, 5)
    with open(fname, 'wb') as f:
        f.write(blk.raw)
    want = [t.txid for t in txs]
    saved = OnDiskBlock.chunk_size
    try:
        for cs in range(case['lo'], case['hi']):
            OnDiskBlock.chunk_size = cs
            res.count('block_chunk_pairs')
            for direction in ('forward', 'reverse'):
                try:
                    with OnDiskBlock(blk.hex_hash, 5, len(blk.raw)) as b:
                        it = b.iter_txs() if direction == 'forward' else b.iter_txs_reversed()
                        got = [(bytes(h), tx) for tx, h in it]
                    ids = [h for h, _ in got]
                    exp = want if direction == 'forward' else want[::-1]
                    ok = ids == exp and all(tx.serialize() == t.raw for (_, tx), t in
                                            zip(got, txs if direction == 'forward' else txs[::-1]))
                    err = None
                except Exception as e:      # noqa
                    ok, err = False, repr(e)
                if not ok:
                    first_fits = cs >= len(chain.varint(len(txs))) + len(txs[0].raw)
                    res.violation(f'block:{direction}:' + ('first-tx-does-not-fit-first-chunk'
                                                           if not first_fits else 'other'),
                                  dict(kind='block', shape=case['shape'], lo=cs, hi=cs + 1),
                                  dict(shape=case['shape'], chunk_size=cs, direction=direction,
                                       error=err, block_size=len(blk.raw),
                                       first_tx_size=len(txs[0].raw)))
    finally:
        OnDiskBlock.chunk_size = saved
        os.remove(fname)
    res.distinct('block_shapes', case['shape'])
    if case['lo'] < 10:
        res.sample({'part': 'block', 'shape': case['shape'], 'block_size': len(blk.raw),
                    'txs': len(txs)}, cap=2)


def run_case(case, res):
    if case.get('kind') == 'block':
        case_block(case, res)
    else:
        case_tx(case, res)


def cases_for(tier):
    q = tier == 'quick'
    cases = []
    for nin, nout in itertools.product(COUNTS, COUNTS):
        for siglen, pklen in itertools.product(SCRIPT_LENS, SCRIPT_LENS):
            if q and (nin > 2 and nout > 2) and (siglen > 254 and pklen > 254):
                continue
            variants = (0, 1, 2, 3) if (siglen <= 254 and pklen <= 254) else ((2,) if q else (1, 2))
            for v in variants:
                cases.append(dict(nin=nin, nout=nout, siglen=siglen, pklen=pklen, variant=v))
    for shape, mk in BLOCK_SHAPES.items():
        txs = mk()
        size = 80 + len(chain.varint(len(txs))) + sum(len(t.raw) for t in txs)
        lo = len(chain.varint(len(txs)))
        hi = size - 80 + 3
        if shape == 'small300':
            # every chunk size up to 3 x the largest tx, a stride above (reported as a cap)
            top = 3 * max(len(t.raw) for t in txs)
            sizes = list(range(lo, top)) + list(range(top, hi, 211 if q else 37)) + [hi - 3, hi - 1]
            for cs in sizes:
                cases.append(dict(kind='block', shape=shape, lo=cs, hi=cs + 1, capped=True))
            continue
        step = 64
        for a in range(lo, hi, step):
            cases.append(dict(kind='block', shape=shape, lo=a, hi=min(a + step, hi)))
    return cases


def run(tier, seed, started):
    cases = cases_for(tier)
    res = farm(run_case, cases, seed=seed)
    if _DIR:
        shutil.rmtree(_DIR, ignore_errors=True)
    c = res.counters
    if c.get('txs', 0) < 500 or c.get('block_chunk_pairs', 0) < 5000 or \
            len(res.sets.get('block_shapes', ())) != len(BLOCK_SHAPES):
        common.vacuous(PROP, res, f'vacuous C13 run: {c}')
    coverage = {
        'evaluations': c['txs'] + c['truncations'] + c['block_chunk_pairs'],
        'distinct_nontrivial': len(res.sets['tx_shapes']) + c['block_chunk_pairs'],
        'rule': ('A: product of input/output counts (1,2,252,253) x first-input script length x '
                 'last-output script length (0,1,75,76,252,253,254,65535,65536) x value/version/'
                 'sequence variants; every proper prefix must fail (all prefixes <= 1 KB; above: first/last 16 field '
                 'boundaries and every 53rd, +-2, stride 4999 - a cap, counted). B: 8 block shapes x every '
                 'chunk size from the count varint to block size + 2 (the 300-tx block: every size '
                 'up to 3 x the largest tx, then a stride - a cap), both directions'),
        'txs': c['txs'], 'truncation_points': c['truncations'],
        'txs_with_truncation_cap': c.get('txs_with_truncation_cap', 0),
        'block_chunk_pairs': c['block_chunk_pairs'],
        'exhaustive': False,
    }
    assumptions = ['transactions come from an independent serializer; segwit-style encodings are '
                   'out of scope for a BSV server']
    return finish(PROP, tier, seed, 'exploration', res, coverage, assumptions, started)


def replay(path):
    code = common.standard_replay(PROP, path, run_case)
    if _DIR:
        shutil.rmtree(_DIR, ignore_errors=True)
    return code
