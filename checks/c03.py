'''C03 - after any reorganisation the index equals a fresh index of the surviving chain.

Exhaustive bounded enumeration of fork histories on the real block processor: base chains (3
free tail blocks) x flush schedules before the reorg x fork depth 1..3 x new-branch recipes
(incl. replaying and conflicting with the orphaned transactions) x reorg limits x event shapes
(single fork, back-to-back forks, equal/shorter branch then extension, forced reorgs with the
chain unchanged / extended / silently switched, fork discovered at every scheduler step of a
running batch; server restarted before the reorganisation; forks of depth 6..7 on a longer
chain, below the block files still on disk; the daemon switching, between two of the block
processor's daemon calls, to a branch shorter than what it has just reported).  Oracles: the reference indexer of the final chain and a fresh real server that
only ever saw the final chain (public observables and raw tables).
'''
import itertools

from vf import common, reorgrun
from vf.common import farm, finish

PROP = 'C03'


def run_case(case, res):
    reorgrun.run_reorg_case(case, res, PROP)
    if case['shape'] in ('single', 'forced') and case.get('d', 0) == 2:
        res.sample(case, cap=2)


def cases_for(tier):
    q = tier == 'quick'
    tails = list(itertools.product(['old', 'new', 'chain2', 'multi', 'fan'] if q else
                                   ['old', 'new', 'chain2', 'fan', 'multi', 'self'], repeat=3))
    firsts = ['replay', 'conflict', 'old', 'cb'] if q else \
        ['replay', 'replay_rev', 'conflict', 'old', 'fan', 'cb']
    flushes = ['', '----F', '---H-F'] if q else ['', '---F', '----F', '---H-F', '--F-H-']
    cases = []
    for tail in tails:
        for d in (1, 2, 3):
            for first in firsts:
                rest_opts = [['new'] * d] if q else [['new'] * d, ['cb'] * (d - 1) + ['multi']]
                for rest in rest_opts:
                    for fl in flushes:
                        for limit in (d, 200):
                            cases.append(dict(shape='single', tail=list(tail), d=d,
                                              branch=[first] + rest, flush=fl, limit=limit))
    # the activation height of the OP_RETURN rule inside the window that gets undone: blocks with
    # a bare OP_RETURN output (recipe fan) exactly at, just below and just above it
    for act in (4, 5, 6):
        for tail in itertools.product(['fan', 'opret', 'old'], repeat=3):
            for d in (1, 2, 3):
                for first in ('replay', 'fan', 'cb'):
                    cases.append(dict(shape='single', tail=list(tail), d=d, flush='----F',
                                      branch=[first] + ['opret'] * d, limit=d, activation=act))
    # forks low in a short chain (the search for the fork point works back from the tip in
    # windows of doubling size: the window that reaches genesis, forks directly after genesis)
    low = ['fan', 'old', 'new', 'chain2', 'multi', 'old', 'new', 'fan', 'old']
    for height in range(1, 10):
        for d in range(1, height + 1):
            for limit in (d, 200):
                for first in ('replay', 'cb'):
                    cases.append(dict(shape='single', prefix=[], tail=low[:height], d=d,
                                      branch=[first] + ['new'] * d, flush='', limit=limit))
    # the server restarted between indexing and the reorganisation, and reorganisations that
    # reach below the block files still kept on disk (deep fork on a longer chain)
    for tail in (tails[::6] if q else tails):
        for d in (1, 2, 3):
            for first in firsts[:3]:
                cases.append(dict(shape='single', tail=list(tail), d=d, branch=[first] + ['new'] * d,
                                  flush='----F', limit=3, restart=True))
        for n in (1, 2, 3):
            cases.append(dict(shape='forced', tail=list(tail), n=n, mode='extended', flush='----F',
                              limit=3, restart=True))
    for tail in (tails[::12] if q else tails[::3]):
        long_tail = list(tail) + ['multi', 'old', 'new', 'chain2', 'fan', 'old', 'new', 'multi']
        for d in (6, 7):
            for first in firsts[:2]:
                cases.append(dict(shape='single', tail=long_tail, d=d, branch=[first] + ['new'] * d,
                                  flush='----F', limit=10))
    sub = tails[::5] if q else tails[::2]
    for tail in sub:
        for d, d2 in ((1, 1), (2, 1), (1, 2), (2, 3), (3, 2)):
            for first in firsts[:3]:
                cases.append(dict(shape='double', tail=list(tail), d=d, d2=d2, flush='----F',
                                  branch=[first] + ['new'] * d,
                                  branch2=['replay'] + ['cb'] * d2, limit=max(d, d2)))
        for d in (1, 2, 3):
            for shorter in range(0, d):
                cases.append(dict(shape='short', tail=list(tail), d=d, shorter=shorter,
                                  branch=['replay'] + ['new'] * d, flush='---F', limit=d))
        for n in (0, 1, 2, 3):
            for mode in ('unchanged', 'extended'):
                cases.append(dict(shape='forced', tail=list(tail), n=n, mode=mode, flush='----F',
                                  limit=max(n, 1)))
            for d in (1, 2, 3):
                cases.append(dict(shape='forced', tail=list(tail), n=n, mode='switched', d=d,
                                  branch=['conflict'] + ['new'] * d, flush='', limit=3))
    # fork discovered mid-batch: the daemon's switch placed at every scheduler step
    mid_tails = [('old', 'chain2', 'multi'), ('new', 'new', 'old')] if q else tails[::9]
    for tail in mid_tails:
        for d in (1, 2):
            for k in range(0, 260):
                cases.append(dict(shape='midbatch', tail=list(tail), d=d, ext=['new', 'old', 'new'],
                                  branch=['replay'] + ['new'] * (d + 3), k=k, limit=6,
                                  prefetch=2 if k % 2 else 100))
    # ... and the daemon switching to a branch SHORTER than what it has just reported (between two
    # of the block processor's daemon calls: every daemon answer is a scheduler step here), while
    # it extends or while a reorganisation is under way; later that branch outgrows everything
    for tail in mid_tails[:1] if q else mid_tails:
        for d in (1, 2):
            for below in (1, 2):
                for first_fork in (None, 2):
                    for k in range(0, 130 if first_fork else 70, 1 if not q else 2):
                        cases.append(dict(shape='midbatch-short', tail=list(tail), d=d, below=below,
                                          ext=['new', 'old', 'new'], first_fork=first_fork,
                                          branch=['replay'] + ['new'] * (d + 3), k=k, limit=6,
                                          slow_daemon=True, prefetch=2 if k % 2 else 100))
    return cases


def run(tier, seed, started):
    cases = cases_for(tier)
    res = farm(run_case, cases, seed=seed)
    c = res.counters
    shapes = res.sets.get('shapes', set())
    if shapes != {'single', 'double', 'short', 'forced', 'midbatch', 'midbatch-short'} or \
            not c.get('fresh_server_comparisons') or not c.get('restarts_before_reorg'):
        common.vacuous(PROP, res, f'vacuous C03 run: {shapes} {c}')
    if c.get('max:midbatch_steps', 0) >= 260 or c.get('max:midbatch_short_steps', 0) >= 130:
        raise common.Broken('mid-batch switch positions do not cover the whole batch')
    coverage = {
        'evaluations': c['executions'],
        'distinct_nontrivial': len(res.sets.get('final_chains', ())),
        'rule': ('product of base tails x fork depth x branch recipes x flush schedule x reorg limit '
                 'for each event shape; mid-batch: the switch placed at every scheduler step of the '
                 'batch; distinct_nontrivial = distinct final chains (by block hashes) reached '
                 'through a reorganisation'),
        'observations_compared': c['observations'],
        'fresh_server_comparisons': c['fresh_server_comparisons'],
        'midbatch_steps_covered': c.get('max:midbatch_steps'),
        'exhaustive': True,
        'restarts_before_reorg': c.get('restarts_before_reorg', 0),
        'bounds': {'tier': tier, 'cases': len(cases), 'fork_depth': '1..3, and 6..7 on a longer chain'},
    }
    assumptions = ['chains at least twice as high as the fork is deep (the property\'s carve-out)',
                   'fork depth within the reorg limit', 'default schedule apart from the placement '
                   'of the daemon\'s switch']
    return finish(PROP, tier, seed, 'exploration', res, coverage, assumptions, started)


def replay(path):
    return common.standard_replay(PROP, path, run_case)
