'''C06 - shutdown at any moment leaves a consistent database and keeps finished work.

Stateless schedule exploration of the real BlockProcessor.fetch_and_process_blocks under a
hand-stepped loop with SLICED worker jobs (vf/sliced.py): a job body runs in a real thread that
hands a baton back before every storage / file operation.  For every scenario shape (initial
sync with forced flushes; caught up then new blocks; natural reorg; forced reorg; idle) the
shutdown (shutdown_event.set() + cancellation of the processing task, as ServerBase.run and the
Controller's task group do) is placed at EVERY scheduler step - including in the middle of a
worker job - and after it every interleaving of event-loop callbacks and job slices is explored
up to a preemption bound (iterative: 0, 1, 2).  Worker threads cannot be cancelled: a job whose
future was cancelled still runs to its end, and all jobs finish before the process exits.
Oracle: the task ends without an exception; the reopened database is an exact index (C01/C02
observables) of the chain up to its stored height; that height is not below any block whose
advance had completed before the stop (when no reorganisation had been requested by then).
'''
import itertools

from vf import common, observe, reorgrun, world
from vf.common import farm, finish
from vf.sliced import SlicedRunner

PROP = 'C06'
ACT = reorgrun.ACTIVATION
BASE = reorgrun.PREFIX + ['old', 'chain2', 'multi']        # height 6
WHAT = ('utxo', 'hist', 'headers')
MUTATING = ('flush_dbs', 'advance_block', 'backup_block')


def scenario(name):
    '''Returns (setup_chain, flush_schedule, events).  Events run when the system is quiescent:
    ('chain', blocks) | ('poll',) | ('force', n).'''
    base = reorgrun.sim_for(BASE)
    ext1 = reorgrun.sim_for(BASE + ['new'])
    ext2 = reorgrun.sim_for(BASE + ['new', 'old'])
    if name == 'initial-sync':
        return None, {2: False, 4: True}, [('chain', base.blocks), ('start',)], [base.blocks]
    if name == 'new-blocks':
        return base.blocks, {}, [('chain', ext1.blocks), ('poll',), ('chain', ext2.blocks),
                                 ('poll',)], [ext2.blocks]
    if name == 'two-at-once':
        return base.blocks, {7: False}, [('chain', ext2.blocks), ('poll',)], [ext2.blocks]
    if name == 'natural-reorg':
        y = reorgrun.make_branch(BASE, 2, ['replay', 'new', 'new'], b'Y', base)
        return base.blocks, {}, [('rchain', y.blocks), ('poll',)], [base.blocks, y.blocks]
    if name == 'forced-reorg':
        return base.blocks, {}, [('force', 2), ('poll',)], [base.blocks]
    if name == 'sync-fork':
        # initial sync of a 10-block chain A in small batches; in the middle of it the daemon
        # switches to a longer chain B forking at height 6 (unflushed blocks behind the reorg)
        long_ = BASE + ['new', 'old', 'self', 'new']
        a = reorgrun.sim_for(long_)
        y = reorgrun.make_branch(long_, 4, ['replay', 'new', 'new', 'new', 'old', 'cb'], b'Y', a)
        return None, {}, [('chain', a.blocks), ('start',), ('chain_at', 100, y.blocks)], \
            [a.blocks, y.blocks]
    if name == 'truncated-block':
        # two blocks arrive at once; the file of the second one is short (its last transaction
        # is cut): processing it fails part-way.  The stop may come at any moment around that.
        import copy
        bad = copy.copy(ext2.blocks[-1])
        bad.raw = bad.raw[:-7]
        return base.blocks, {7: False}, [('chain', ext2.blocks[:-1] + [bad]), ('poll',)], [ext2.blocks]
    if name == 'fault-in-history-batch':
        # a write error while the history batch of the next flush is being filled
        return base.blocks, {}, [('fault', 1, 1), ('chain', ext2.blocks), ('poll',)], [ext2.blocks]
    if name == 'idle':
        return base.blocks, {}, [('poll',), ('poll',)], [base.blocks]
    if name.startswith('slow-daemon:'):
        # the same scenario with a daemon whose every answer (height, hashes, each block
        # download) is a separate scheduler step: the processing task is also stopped while it
        # waits for a block that is still being downloaded
        return scenario(name.split(':', 1)[1])
    raise common.Broken(name)


SHAPES = ['initial-sync', 'new-blocks', 'two-at-once', 'natural-reorg', 'forced-reorg', 'idle',
          'sync-fork', 'slow-daemon:initial-sync', 'slow-daemon:two-at-once',
          'slow-daemon:natural-reorg', 'truncated-block', 'fault-in-history-batch']
# shapes whose environment is faulty: the processing task may end with that fault's exception
# and unflushed work may be given up; the database left behind must still be exact
FAULTY = ('truncated-block', 'fault-in-history-batch')


def job_name(job):
    return getattr(job.func, '__name__', '')


class Exec:
    '''One execution: scenario, cancel instant, choices after the cancel.'''

    def __init__(self, shape, prefetch=2):
        self.shape = shape
        setup_chain, fmap, self.events, self.chains = scenario(shape)
        self.m = world.Machine()
        self.w = world.World(self.m, reorg_limit=5, activation=ACT, prefetch=prefetch)
        w = self.w
        self.slow_daemon = shape.startswith('slow-daemon:')
        w.flush_schedule = dict(fmap)
        self.started = False
        if setup_chain is not None:
            # set-up phase, default schedule, atomic jobs, not explored
            w.daemon.set_chain(setup_chain)
            w.start_sync()
            w.run_until_caught_up()
            self.started = True
        w.daemon.immediate = not self.slow_daemon
        self.w0_height = w.db.state.height if self.started else -1
        for ch in self.chains:
            w.daemon.add_known(ch)
        self.runner = SlicedRunner(w)
        self.reorg_requested = False
        self.completed = []         # (height) of advance jobs completed, in order
        self.overlap = False
        self.steps = 0
        self.steps_taken = 0
        self.levels = []            # index height after each completed advance / backup job
        w.on_job_end = self._job_end
        self.cancelled_at = None
        self.done_before_cancel = None

    def _job_end(self, job):
        if job_name(job) in ('advance_block', 'backup_block') and job.result[1] is None:
            self.levels.append((job_name(job), self.w.bp.state.height))
        if job_name(job) == 'advance_block' and job.result[1] is None:
            # advance_block returns without advancing when it detects a reorg
            self.completed.append(job.args[0].height if self.w.bp.state.height >= job.args[0].height
                                  else None)

    def close(self):
        try:
            self.runner.shutdown()
        finally:
            self.w.close(destroy=False)
            self.m.destroy()

    # -- phase A: default policy at slice granularity -----------------------------------------
    def step_default(self):
        w, loop = self.w, self.w.loop
        if w.bp_task is not None and w.bp_task.done():
            return None
        for ev in [e for e in self.events if e[0] == 'chain_at' and e[1] <= self.steps_taken]:
            self.events.remove(ev)
            w.daemon.add_known(ev[2])
            w.daemon.set_chain(ev[2])
        self.steps_taken += 1
        if loop.step_ready():
            return 'L'
        active = self.runner.active()
        if len([sj for sj in active if job_name(sj.job) in MUTATING]) >= 2:
            self.overlap = True
        if active:
            self.runner.step(active[0])
            return 'J'
        if w.daemon.pending:
            w.daemon.deliver(w.daemon.pending[0])
            return 'D'
        pending = [e for e in self.events if e[0] != 'chain_at']
        if pending:
            ev = pending[0]
            self.events.remove(ev)
            if ev[0] in ('chain', 'rchain'):
                w.daemon.set_chain(ev[1])
                if ev[0] == 'rchain':
                    self.reorg_requested = True
            elif ev[0] == 'fault':
                self.m.stores.fault = (self.m.stores.batches_created + ev[1], ev[2])
            elif ev[0] == 'start':
                w.start_sync()
                self.started = True
            elif ev[0] == 'poll':
                w.caught_up_event.clear()
                if not loop.fire_timer():
                    raise common.Broken('no polling timer to fire')
            elif ev[0] == 'force':
                if not w.bp.force_chain_reorg(ev[1]):
                    raise common.Broken('forced reorg refused')
                self.reorg_requested = True
            return 'E'
        return None

    def run(self, cancel_at, choices):
        '''Returns (menus, taken) of the after-cancel choice points.'''
        w, loop = self.w, self.w.loop
        while self.steps < cancel_at:
            if self.step_default() is None:
                return None                     # the scenario ended before this instant
            self.steps += 1
        if w.bp_task is None or w.bp_task.done():
            return None
        # the stop: what ServerBase.run / the task group do
        self.done_before_cancel = [h for h in self.completed if h is not None]
        self.reorg_before_cancel = self.reorg_requested or w.bp.reorg_count is not None
        self.levels_at_cancel = len(self.levels)
        w.shutdown_event.set()
        w.bp_task.cancel()
        menus, taken = [], []
        running = None                          # the sliced job that ran last and is mid-way
        pos = 0
        guard = 0
        while True:
            guard += 1
            if guard > 20000:
                raise common.Broken('after-cancel phase does not end')
            active = self.runner.active()
            if len([sj for sj in active if job_name(sj.job) in MUTATING]) >= 2:
                self.overlap = True
            menu = []
            if running is not None and running.state == 'parked':
                menu.append(('J', running))
            if loop.has_ready():
                menu.append(('L', None))
            for sj in active:
                if sj is not running or running.state != 'parked':
                    if ('J', sj) not in menu:
                        menu.append(('J', sj))
            if w.daemon.pending and not w.bp_task.done():
                # an answer of the daemon may still arrive after the stop (never the default)
                menu.append(('D', None))
                if len(menu) == 1:
                    # nothing else is enabled: the processing task must not depend on it
                    break
            if not menu:
                break
            c = choices[pos] if pos < len(choices) else 0
            if c >= len(menu):
                raise common.Broken('replay diverged: choice out of range')
            menus.append(len(menu))
            taken.append(c)
            pos += 1
            kind, sj = menu[c]
            if kind == 'L':
                loop.step_ready()
            elif kind == 'D':
                w.daemon.deliver(w.daemon.pending[0])
            else:
                state = self.runner.step(sj)
                running = sj if state == 'parked' else None
        return menus, taken


def judge(ex, res, resume=False):
    '''Reopen the database left behind and compare.  resume: then run the server on it again
    until it has caught up with the daemon, and compare once more (what the shutdown left
    behind must also be a sound basis for the next run).'''
    w = ex.w
    failures = []
    final = list(w.daemon.best)
    orphans = [b for b in w.daemon.by_hash.values()]
    if ex.shape in FAULTY:
        # the next run meets a healthy environment
        final, orphans = list(ex.chains[-1]), list(ex.chains[-1])
        ex.m.stores.fault = None
    task = w.bp_task
    if not task.done():
        failures.append(('task-did-not-finish', {}))
    elif not task.cancelled() and task.exception() is not None:
        e = task.exception()
        if not (ex.shape in FAULTY and ('truncated block file' in str(e) or
                                        type(e).__name__ == 'InjectedFault')):
            failures.append(('task-raised', dict(error=repr(e))))
    elif task.cancelled() and ex.done_before_cancel:
        failures.append(('task-ended-cancelled-after-work', {}))
    errs = [str(e.get('exception') or e.get('message')) for e in w.loop.errors]
    errs = [e for e in errs if 'prefetch_one' not in e and 'was never retrieved' not in e]
    ex.runner.shutdown()
    w.close(destroy=False)
    w2 = world.World(ex.m, reorg_limit=5, activation=ACT)
    try:
        try:
            st = w2.loop.run_coro(w2.db.open_for_sync(), fire_timers=False)
        except Exception as e:      # noqa
            failures.append(('reopen-failed', dict(error=repr(e))))
            return failures
        h = st.height
        chain_ = None
        for ch in ex.chains:
            if h < 0 or (h < len(ch) and ch[h].hash == bytes(st.tip)):
                chain_ = ch
                break
        if chain_ is None:
            failures.append(('stored-tip-on-no-known-chain', dict(height=h)))
            return failures
        if h >= 0:
            ref = observe.ref_at(chain_, h, ACT)
            try:
                obs = observe.observe(w2, ref, what=WHAT)
                for field, detail in observe.compare(obs, ref, WHAT):
                    failures.append((f'reopened:{field}', dict(height=h, **(
                        {k: v for k, v in detail.items() if k in ('script', 'got', 'want')}
                        if isinstance(detail, dict) else {}))))
            except (world.ReaderBlocked, observe.ReadFailed, RuntimeError) as e:
                failures.append(('reopened:reader-retries-forever', dict(height=h, error=repr(e))))
        # the index height reached by the jobs completed before the stop, minus one per block
        # legitimately undone by a backup that completed afterwards (the shielded one in flight)
        before = ex.levels[:ex.levels_at_cancel]
        need = before[-1][1] if before else (ex.w0_height if hasattr(ex, 'w0_height') else -1)
        need -= sum(1 for kind, _h in ex.levels[ex.levels_at_cancel:] if kind == 'backup_block')
        if h < need and ex.shape not in FAULTY:
            failures.append(('finished-work-lost', dict(stored=h, completed=need,
                                                        reorg_requested=ex.reorg_before_cancel)))
        res.distinct('stored_heights', (ex.shape, h))
    finally:
        w2.close(destroy=False)
    if resume and not failures and final:
        w3 = world.World(ex.m, reorg_limit=5, activation=ACT)
        try:
            w3.daemon.add_known(orphans)
            w3.daemon.set_chain(final)
            w3.start_sync()
            try:
                w3.run_until_caught_up()
                ref = observe.ref_at(final, len(final) - 1, ACT)
                obs = observe.observe(w3, ref, what=WHAT)
                for field, detail in observe.compare(obs, ref, WHAT):
                    failures.append((f'next-run:{field}', dict(height=len(final) - 1, **(
                        {k: v for k, v in detail.items() if k in ('script', 'got', 'want')}
                        if isinstance(detail, dict) else {}))))
            except (world.SyncFailed, world.Stalled) as e:
                failures.append(('next-run-died', dict(stored=h, error=repr(e))))
            except (world.ReaderBlocked, observe.ReadFailed, RuntimeError) as e:
                failures.append(('next-run:reader-retries-forever', dict(error=repr(e))))
            res.count('next_runs_on_the_database_left_behind')
        finally:
            w3.close(destroy=False)
    return failures


def explore_instant(shape, cancel_at, bound, res, only_choices=None):
    '''All after-cancel schedules with at most `bound` non-default choices.'''
    stack = [(list(only_choices or []), 0)]
    ended = False
    while stack:
        prefix, cost = stack.pop()
        ex = Exec(shape)
        try:
            out = ex.run(cancel_at, prefix)
            if out is None:
                ended = True
                break
            menus, taken = out
            failures = judge(ex, res, resume=not any(taken))
            res.count('executions')
            res.count('after_cancel_choice_points', len(menus))
            if ex.overlap:
                res.count('executions_with_overlapping_mutating_jobs')
            res.maxi('after_cancel_steps', len(menus))
            res.distinct('schedules', (shape, cancel_at, tuple(taken)))
            if cancel_at % 37 == 5 and any(taken):
                res.sample({'shape': shape, 'cancel_at_step': cancel_at,
                            'after_cancel_choices': list(taken), 'overlap': ex.overlap}, cap=2)
        finally:
            ex.close()
        for field, detail in failures[:1]:
            where = 'two-mutating-jobs-overlap' if ex.overlap else 'no-overlap'
            res.violation(f'{field.split(":")[-1]}:{where}',
                          dict(shape=shape, cancel_at=cancel_at, choices=taken),
                          dict(shape=shape, cancel_at=cancel_at, choices=taken, field=field,
                               overlap=ex.overlap, **detail))
        if only_choices is not None:
            break
        for i in range(len(prefix), len(taken)):
            if cost + 1 > bound:
                break
            for alt in range(1, menus[i]):
                stack.append((taken[:i] + [alt], cost + 1))
    return ended


def self_test(shape, res):
    '''Determinism: the same (instant, choices) twice gives the same menus and the same image.'''
    seen = []
    for _ in range(2):
        ex = Exec(shape)
        try:
            out = ex.run(9, [0, 1])
            img = sorted((p.rsplit('/', 1)[-1], sorted(d.items())) for p, d in ex.m.stores.data.items())
            seen.append((out, ex.steps, ex.w.db.state.height if ex.w.db.state else None, img))
        except common.Broken:
            seen.append('diverged')
        finally:
            ex.close()
    if seen[0] != seen[1]:
        raise common.Broken(f'non-deterministic execution for shape {shape}')
    res.count('determinism_self_tests')


def run_case(case, res):
    shape = case['shape']
    if case.get('lo') == 0 and 'choices' not in case:
        self_test(shape, res)
    if 'choices' in case:
        explore_instant(shape, case['cancel_at'], 0, res, only_choices=case['choices'])
        return
    for k in range(case['lo'], case['hi']):
        if explore_instant(shape, k, case['bound'], res):
            res.count('instants_beyond_end')
            break
        res.count('cancel_instants')
    res.distinct('shapes', shape)


def scenario_length(shape):
    ex = Exec(shape)
    try:
        n = 0
        while ex.step_default() is not None:
            n += 1
            if n > 5000:
                raise common.Broken('scenario does not end')
        return n
    finally:
        ex.close()


def run(tier, seed, started):
    common.setup_imports()
    bound = 2 if tier == 'quick' else 3
    cases = []
    lengths = {}
    for shape in SHAPES:
        n = lengths[shape] = scenario_length(shape)
        step = 4
        for lo in range(0, n + 1, step):
            cases.append(dict(shape=shape, lo=lo, hi=min(lo + step, n + 1), bound=bound))
    res = farm(run_case, cases, seed=seed, chunk=1)
    c = res.counters
    if res.sets.get('shapes') != set(SHAPES) or c.get('cancel_instants', 0) < sum(lengths.values()) * 0.9:
        common.vacuous(PROP, res, f'vacuous C06 run: {c} {lengths}')
    coverage = {
        'evaluations': c['executions'],
        'distinct_nontrivial': len(res.sets.get('schedules', ())),
        'rule': (f'6 scenario shapes x every scheduler step (slice granularity, {sum(lengths.values())} '
                 f'instants) as the shutdown instant x every after-cancel interleaving of loop '
                 f'callbacks and job slices with at most {bound} non-default choices; distinct = '
                 f'distinct (shape, instant, choice vector)'),
        'cancel_instants': c['cancel_instants'], 'scenario_lengths': lengths,
        'preemption_bound_completed': bound,
        'executions_with_overlapping_mutating_jobs': c.get('executions_with_overlapping_mutating_jobs', 0),
        'max_after_cancel_choice_points': c.get('max:after_cancel_steps'),
        'distinct_stored_heights': len(res.sets.get('stored_heights', ())),
        'exhaustive': True,
    }
    assumptions = ['preemption inside a worker job only at storage / file operation boundaries',
                   'all worker threads finish before the process exits (executor join at exit)',
                   'no timer fires after the stop (polling sleeps are cancelled with the task)']
    return finish(PROP, tier, seed, 'exploration', res, coverage, assumptions, started)


def replay(path):
    return common.standard_replay(PROP, path, run_case)
