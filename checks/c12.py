'''C12 - merkle branches, roots and the incremental cache agree with the definition.

Part A (exhaustive inputs): every list length n <= N and every index through the real Merkle
methods against a textbook recursive root and an independent fold.
Part B (exhaustive inputs): branch_length against integer ceil(log2 n) for every n <= 2^16 and
every 2^k-1, 2^k, 2^k+1 up to k = 62.
Part C (explicit-state BFS, real MerkleCache as the transition function): all
initialise / extend / truncate / reorg sequences over a source of bounded size; in every
reachable state every (length, index) query equals the from-scratch computation.
'''
import collections
import time
from hashlib import sha256

from vf import common
from vf.common import Result, farm, finish, run_sync

PROP = 'C12'


def dsha(b):
    return sha256(sha256(b).digest()).digest()


def leaf(i, version=0):
    return dsha(b'leaf%d/%d' % (i, version))


def ref_levels(hashes):
    '''All levels of the Bitcoin merkle tree, bottom first (textbook definition).'''
    levels = [list(hashes)]
    cur = list(hashes)
    while len(cur) > 1:
        if len(cur) & 1:
            cur = cur + [cur[-1]]
        cur = [dsha(cur[i] + cur[i + 1]) for i in range(0, len(cur), 2)]
        levels.append(cur)
    return levels


def ref_branch(levels, index, tsc):
    branch = []
    for lvl in levels[:-1]:
        sib = index ^ 1
        if sib >= len(lvl):
            branch.append(b'*' if tsc else lvl[index])
        else:
            branch.append(lvl[sib])
        index >>= 1
    return branch


def fold(h, branch, index):
    for elt in branch:
        if elt == b'*':
            elt = h
        h = dsha(elt + h) if index & 1 else dsha(h + elt)
        index >>= 1
    return h


def ceil_log2(n):
    return (n - 1).bit_length()


# ---- part A ---------------------------------------------------------------------------------

def case_lists(case, res):
    from electrumx.lib.merkle import Merkle
    n = case['n']
    m = Merkle()
    hashes = [leaf(i) for i in range(n)]
    levels = ref_levels(hashes)
    root = levels[-1][0]
    want_len = ceil_log2(n)
    only = case.get('index')

    def bad(what, **kw):
        res.violation(f'lists:{what}', dict(case, index=kw.get('index')), dict(what=what, n=n, **kw))

    try:
        if m.root(hashes) != root:
            bad('root')
        if m.root(iter(hashes)) != root:
            bad('root-iterable')
    except Exception as e:
        bad('root-raises', error=repr(e))
    for index in range(n):
        if only is not None and index != only:
            continue
        res.count('list_queries')
        try:
            for tsc in (False, True):
                branch, r = m.branch_and_root(hashes, index, tsc_format=tsc)
                if r != root:
                    bad('branch-root', index=index, tsc=tsc)
                if len(branch) != want_len:
                    bad('branch-length', index=index, tsc=tsc, got=len(branch), want=want_len)
                if branch != ref_branch(levels, index, tsc):
                    bad('branch-elements', index=index, tsc=tsc)
                if fold(hashes[index], branch, index) != root:
                    bad('branch-does-not-fold', index=index, tsc=tsc)
            branch, r = m.branch_and_root(hashes, index)
            if m.root_from_proof(hashes[index], branch, index) != root:
                bad('root_from_proof', index=index)
        except Exception as e:
            bad('branch-raises', index=index, error=repr(e))
    # Cached-level composition for every admissible depth
    for dh in range(0, want_len + 1):
        try:
            level = m.level(hashes, dh)
        except Exception as e:
            bad('level-raises', depth=dh, error=repr(e))
            continue
        if level != levels[dh]:
            bad('level', depth=dh)
        size = 1 << dh
        for index in range(n):
            if only is not None and index != only:
                continue
            res.count('level_queries')
            start = (index >> dh) << dh
            leaves = hashes[start:start + size]
            try:
                for tsc in (False, True):
                    branch, r = m.branch_and_root_from_level(level, leaves, index, dh,
                                                             tsc_format=tsc)
                    if r != root or branch != ref_branch(levels, index, tsc):
                        bad('from-level', index=index, depth=dh, tsc=tsc)
            except Exception as e:
                bad('from-level-raises', index=index, depth=dh, error=repr(e))
    res.count('lists')
    res.distinct('shape', (n & 1, want_len))
    if n in (1, 2, 3, 7):
        res.sample({'part': 'lists', 'n': n, 'root': root.hex()[:16], 'branch_len': want_len})


# ---- part B ---------------------------------------------------------------------------------

def case_branch_length(case, res):
    from electrumx.lib.merkle import Merkle
    m = Merkle()
    for n in range(case['lo'], case['hi']):
        res.count('branch_length_inputs')
        try:
            got = m.branch_length(n)
        except Exception as e:
            got = repr(e)
        if got != ceil_log2(n):
            res.violation('branch_length', {'kind': 'branch_length', 'lo': n, 'hi': n + 1},
                          {'n': n, 'got': got, 'want': ceil_log2(n)})
        try:
            if m.tree_depth(n) != ceil_log2(n) + 1:
                res.violation('tree_depth', {'kind': 'branch_length', 'lo': n, 'hi': n + 1},
                              {'n': n, 'got': m.tree_depth(n), 'want': ceil_log2(n) + 1})
        except Exception as e:
            res.violation('tree_depth', {'kind': 'branch_length', 'lo': n, 'hi': n + 1},
                          {'n': n, 'got': repr(e)})


# ---- part C: BFS over the real MerkleCache ---------------------------------------------------

class Source:
    '''The hash source: index i holds leaf(i, version[i]); a reorg gives fresh versions.'''

    def __init__(self):
        self.versions = []
        self.fresh = 0

    def grow(self, n):
        for _ in range(n):
            self.fresh += 1
            self.versions.append(self.fresh)

    def cut(self, k):
        del self.versions[k:]

    def hashes(self):
        return [leaf(i, v) for i, v in enumerate(self.versions)]

    async def func(self, start, count):
        hs = self.hashes()
        if start < 0 or count < 0 or start + count > len(hs):
            raise common.Broken(f'source read out of range: {start}+{count} of {len(hs)}')
        return hs[start:start + count]


def build(events):
    from electrumx.lib.merkle import Merkle, MerkleCache
    src = Source()
    cache = MerkleCache(Merkle(), src.func)
    for ev in events:
        kind = ev[0]
        if kind == 'grow':
            src.grow(ev[1])
        elif kind == 'init':
            run_sync(cache.initialize(ev[1]))
        elif kind == 'extend':
            run_sync(cache.branch_and_root(ev[1], 0))
        elif kind == 'truncate':
            cache.truncate(ev[1])
        elif kind == 'reorg':
            # What a chain reorganisation does: DB.backup_fs truncates, the source loses the
            # orphaned hashes and later regrows with different ones.
            cache.truncate(ev[1])
            src.cut(ev[1])
    return src, cache


def canon(src, cache):
    '''State hash.  The cache's future depends on its length, depth and on which level entries
    are right for the current source (hashes are collision free, so a wrong entry is wrong
    whatever its value); source contents are fresh names, so only its length matters.'''
    from electrumx.lib.merkle import Merkle
    hs = src.hashes()
    length = cache.length
    want = Merkle().level(hs[:length], cache.depth_higher) if length else []
    level = list(cache.level)
    ok = tuple(i < len(want) and level[i] == want[i] for i in range(len(level)))
    return (len(hs), length, cache.depth_higher, len(level), ok)


def check_state(events, res, size):
    '''Every (length, index) query in this state equals the from-scratch result.'''
    src, _ = build(events)
    hs = src.hashes()
    nviol = 0
    for length in range(1, len(hs) + 1):
        levels = ref_levels(hs[:length])
        root = levels[-1][0]
        src2, cache = build(events)
        for index in range(length):
            res.count('cache_queries')
            for tsc in (False, True):
                try:
                    branch, r = run_sync(cache.branch_and_root(length, index, tsc_format=tsc))
                    okay = (r == root and branch == ref_branch(levels, index, tsc))
                    err = None
                except common.Broken:
                    raise
                except Exception as e:
                    okay, err = False, repr(e)
                if not okay:
                    nviol += 1
                    res.violation('cache:wrong-branch-or-root' if err is None else 'cache:raises',
                                  {'kind': 'cache', 'events': events, 'length': length,
                                   'index': index, 'tsc': tsc, 'size': size},
                                  {'events': events, 'length': length, 'index': index,
                                   'tsc': tsc, 'error': err})
    return nviol


def enabled(src_len, cache_len, initialised, size):
    evs = []
    if not initialised:
        return evs
    for n in (1, 2, 5):
        if src_len + n <= size:
            evs.append(('grow', n))
    for length in range(cache_len + 1, src_len + 1):
        evs.append(('extend', length))
    for l in range(1, src_len + 1):
        if l < cache_len:
            evs.append(('truncate', l))
    for k in range(1, src_len):
        evs.append(('reorg', k))
    return evs


def case_cache(case, res):
    '''One independent sub-search: source starts with s0 hashes, cache initialised to l0.'''
    size, s0, l0, depth = case['size'], case['s0'], case['l0'], case['depth']
    if case.get('events') is not None:     # replay of one query
        src, cache = build([tuple(e) for e in case['events']])
        check_state([tuple(e) for e in case['events']], res, size)
        return
    root_events = [('grow', s0), ('init', l0)]
    src, cache = build(root_events)
    seen = {canon(src, cache)}
    frontier = collections.deque([root_events])
    states = transitions = 0
    maxdepth = 0
    while frontier:
        hist = frontier.popleft()
        states += 1
        maxdepth = max(maxdepth, len(hist) - 2)
        if check_state(hist, res, size):
            continue        # do not expand below a violating state
        if len(hist) - 2 >= depth:
            res.count('cache_depth_cap_hits')
            continue
        src, cache = build(hist)
        for ev in enabled(len(src.versions), cache.length, True, size):
            transitions += 1
            nxt = hist + [ev]
            try:
                s2, c2 = build(nxt)
            except common.Broken:
                raise
            except Exception as e:
                res.violation('cache:transition-raises',
                              {'kind': 'cache', 'events': nxt, 'size': size, 's0': s0, 'l0': l0,
                               'depth': depth}, {'events': nxt, 'error': repr(e)})
                continue
            k = canon(s2, c2)
            res.distinct('ev_kinds', ev[0])
            if k not in seen:
                seen.add(k)
                frontier.append(nxt)
    res.count('cache_states', states)
    res.count('cache_transitions', transitions)
    res.maxi('cache_depth', maxdepth)
    if s0 == size // 2 and l0 == 3:
        res.sample({'part': 'cache', 'root_events': root_events, 'states': states,
                    'transitions': transitions})


# ---- part D: concurrent cache operations, every interleaving of their source reads ----------

def run_interleaving(scn, choices):
    """Execute scenario scn = dict(size, l0, queries=[(length, index, tsc)], truncate=l|None) on a
    fresh real MerkleCache under a hand-stepped loop.  `choices` is the prefix of decisions; after
    it the first enabled action is taken.  Returns (trace of menus, taken, results, final cache)."""
    from electrumx.lib.merkle import Merkle, MerkleCache
    from vf.vloop import VLoop
    loop = VLoop()
    loop.enter()
    try:
        hs = [leaf(i) for i in range(scn['size'])]
        pending = []

        early = scn.get('capture') == 'early'

        async def source(start, count):
            fut = loop.create_future()
            pending.append((fut, start, count))
            # 'early': the worker thread has read the data when the request was made and only
            # the hand-over is late; otherwise the read happens at the hand-over
            got = hs[start:start + count] if early else None
            await fut
            if start < 0 or count < 0 or start + count > len(hs):
                raise common.Broken('source read out of range')
            return got if early else hs[start:start + count]

        cache = MerkleCache(Merkle(), source)
        init = loop.create_task(cache.initialize(scn['l0']))
        loop.drain_ready()
        while not init.done():
            pending.pop(0)[0].set_result(None)
            loop.drain_ready()
        tasks = [loop.create_task(cache.branch_and_root(l, i, tsc_format=t))
                 for l, i, t in scn['queries']]
        trunc_left = [scn['truncate']] if scn.get('truncate') else []
        if scn.get('reorg'):
            trunc_left = [('reorg', scn['reorg'])]
        menus, taken = [], []
        pos = 0
        while True:
            loop.drain_ready()
            menu = [('read', k) for k in range(len(pending))] + \
                   [('truncate', l) for l in trunc_left[:1]]
            if not menu:
                break
            c = choices[pos] if pos < len(choices) else 0
            if c >= len(menu):
                raise common.Broken('replay diverged: choice out of range')
            menus.append(len(menu))
            taken.append(c)
            pos += 1
            act = menu[c]
            if act[0] == 'read':
                pending.pop(act[1])[0].set_result(None)
            else:
                t_ = trunc_left.pop(0)
                if isinstance(t_, tuple):
                    # a reorganisation: the source changes from t on and the owner truncates
                    for i in range(t_[1], len(hs)):
                        hs[i] = leaf(i + 1000)
                    cache.truncate(t_[1])
                else:
                    cache.truncate(t_)
        results = []
        for t in tasks:
            if not t.done():
                raise common.Broken('cache query never finished')
            results.append(('err', repr(t.exception())) if t.exception() else ('ok', t.result()))
        return menus, taken, results, cache, hs, loop, pending
    except BaseException:
        loop.close()
        raise


def case_concurrent(case, res):
    scn = case['scn']
    stack = [list(case.get('choices') or [])]
    single = case.get('choices') is not None
    while stack:
        prefix = stack.pop()
        menus, taken, results, cache, hs, loop, pending = run_interleaving(scn, prefix)
        try:
            res.count('interleavings')
            res.distinct('interleaving_shapes', tuple(taken))
            bad = None
            old = [leaf(i) for i in range(scn['size'])]
            for (length, index, tsc), (kind, val) in zip(scn['queries'], results):
                levels = ref_levels(hs[:length])
                want = (ref_branch(levels, index, tsc), levels[-1][0])
                if scn.get('reorg'):
                    # in flight across a reorganisation: refused, or right for the old or for
                    # the new source
                    olv = ref_levels(old[:length])
                    if kind == 'ok' and (val[0], val[1]) not in (
                            want, (ref_branch(olv, index, tsc), olv[-1][0])):
                        bad = dict(query=(length, index, tsc), got='matches neither source')
                        break
                    res.count('in_flight_across_reorg_' + ('answered' if kind == 'ok' else 'refused'))
                    continue
                if scn.get('truncate') and kind != 'ok':
                    # a truncate landing while a query is in flight: the source did not change
                    # here, so a reply must equal the from-scratch computation; a REFUSAL is
                    # accepted (in the server a truncate comes with a shorter chain)
                    res.count('in_flight_queries_refused_across_truncate')
                    continue
                if kind != 'ok' or (val[0], val[1]) != want:
                    bad = dict(query=(length, index, tsc), got=kind if kind != 'ok' else 'wrong',
                               error=val if kind != 'ok' else None)
                    break
            if bad is None:
                # the cache left behind must still answer every query correctly
                for length in range(1, len(hs) + 1, 3):
                    levels = ref_levels(hs[:length])
                    t = loop.create_task(cache.branch_and_root(length, length - 1))
                    loop.drain_ready()
                    while not t.done() and pending:
                        pending.pop(0)[0].set_result(None)
                        loop.drain_ready()
                    if not t.done():
                        raise common.Broken('post-state query blocked')
                    if t.exception() or t.result() != (ref_branch(levels, length - 1, False),
                                                       levels[-1][0]):
                        bad = dict(after='all operations finished', length=length,
                                   error=repr(t.exception()))
                        break
            if bad:
                res.violation('cache:concurrent-operations',
                              {'kind': 'concurrent', 'scn': scn, 'choices': taken},
                              dict(scenario=scn, schedule=taken, **bad))
        finally:
            loop.close()
        if single:
            break
        for i in range(len(prefix), len(taken)):
            for alt in range(1, menus[i]):
                stack.append(taken[:i] + [alt])


def concurrent_cases(tier):
    size = 40
    lengths = [7, 17, 30, 40] if tier == 'quick' else [3, 7, 16, 17, 30, 33, 40]
    cases = []
    for l0 in (5, 16):
        for la in lengths:
            for lb in lengths:
                for trunc in (None, 4, 9, 20):
                    scn = dict(size=size, l0=l0, truncate=trunc,
                               queries=[(la, la // 2, False), (lb, lb - 1, True)])
                    cases.append({'kind': 'concurrent', 'scn': scn})
                # the source changes from t on while the lookups are in flight (a read made
                # before it may be handed over after it)
                for t in (4, 9, 20, 33):
                    for capture in ('early', 'late'):
                        scn = dict(size=size, l0=l0, reorg=t, capture=capture,
                                   queries=[(la, la // 2, False), (lb, lb - 1, True)])
                        cases.append({'kind': 'concurrent', 'scn': scn})
        if tier != 'quick':
            # three concurrent lookups: the interleavings grow too fast for longer lists
            # (one (17, 30, 33) scenario alone did not finish in ten minutes)
            for trip in ((3, 7, 16), (7, 3, 9)):
                scn = dict(size=size, l0=l0, truncate=9,
                           queries=[(l, l // 3, False) for l in trip])
                cases.append({'kind': 'concurrent', 'scn': scn})
    return cases


def run_case(case, res):
    kind = case['kind']
    if kind == 'lists':
        case_lists(case, res)
    elif kind == 'branch_length':
        case_branch_length(case, res)
    elif kind == 'cache':
        case_cache(case, res)
    elif kind == 'concurrent':
        case_concurrent(case, res)
    else:
        raise common.Broken(f'unknown case {case}')


def run(tier, seed, started):
    N, size, depth = (96, 14, 6) if tier == 'quick' else (200, 18, 8)
    cases = [{'kind': 'lists', 'n': n} for n in range(1, N + 1)]
    step = 4096
    cases += [{'kind': 'branch_length', 'lo': lo, 'hi': min(lo + step, 65537)}
              for lo in range(1, 65537, step)]
    for k in range(1, 63):
        for n in (2 ** k - 1, 2 ** k, 2 ** k + 1):
            if n > 65536:
                cases.append({'kind': 'branch_length', 'lo': n, 'hi': n + 1})
    for s0 in range(1, size + 1):
        for l0 in range(1, s0 + 1):
            cases.append({'kind': 'cache', 'size': size, 's0': s0, 'l0': l0, 'depth': depth})
    cases += concurrent_cases(tier)
    res = farm(run_case, cases, seed=seed)
    c = res.counters
    if not (c.get('lists') == N and c.get('cache_states', 0) > 50
            and c.get('branch_length_inputs', 0) > 65536 and c.get('interleavings', 0) > 1000
            and res.sets.get('ev_kinds') == {'grow', 'extend', 'truncate', 'reorg'}):
        common.vacuous(PROP, res, f'vacuous C12 run: {c} {res.sets.get("ev_kinds")}')
    coverage = {
        'states': c['cache_states'], 'transitions': c['cache_transitions'],
        'traces_validated_against_impl': c['cache_states'],
        'evaluations': c['list_queries'] + c['level_queries'] + c['branch_length_inputs']
        + c['cache_queries'] + c['interleavings'],
        'interleavings_of_concurrent_cache_operations': c['interleavings'],
        'distinct_nontrivial': c['lists'] - 1 + c['cache_states'],
        'rule': (f'A: every list length 1..{N} x every index x classic/TSC x every cached-level '
                 f'depth; B: branch_length for every n <= 65536 and 2^k-1,2^k,2^k+1 for k <= 62; '
                 f'C: BFS over the real MerkleCache, source size <= {size}, every (initial source '
                 f'length, initial cache length) root, events grow/extend/truncate/reorg to depth '
                 f'{depth}; a state is non-trivial when it is distinct under the canonical form '
                 f'(source length, cache length, depth, per-entry correctness of the level); D: every '
                 f'interleaving of the source reads of 2-3 concurrent queries and a truncate'),
        'exhaustive': c.get('cache_depth_cap_hits', 0) == 0,
        'bounds': {'N': N, 'source_size': size, 'bfs_depth': depth,
                   'depth_cap_hits': c.get('cache_depth_cap_hits', 0)},
        'explanation': ('the model IS the implementation: every BFS transition calls the real '
                        'MerkleCache; each state is re-built by replaying its event history on a '
                        'fresh object, so every state counts as a trace validated against the '
                        'implementation'),
    }
    assumptions = ['double SHA-256 is collision free on the leaves used',
                   'the hash source answers consistently between two cache calls (in-flight '
                   'races with truncation are C11)']
    return finish(PROP, tier, seed, 'model_checking', res, coverage, assumptions, started)


def replay(path):
    return common.standard_replay(PROP, path, run_case)
