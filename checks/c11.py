'''C11 - every merkle proof the server hands out verifies against the current chain.

Part A (exhaustive inputs x histories, default schedule): chains with blocks of 1, 2, 199, 200,
201 and 300 transactions (direct and cached merkle path), plain and after reorganisations that
replace the large blocks by other large blocks; over the wire: for EVERY position of every
block transaction.get_merkle (by hash), id_from_pos(merkle=true), get_tsc_merkle (txid / tx x
block_hash / block_header / merkle_root, '*' expansion) must fold to the merkle root in that
block's header; block.header(h, cp) for EVERY h <= cp <= tip must fold to the merkle root of
the reference block hashes; positions, heights and checkpoints outside the chain are refused.
Part B (schedules): the same requests in flight while blocks are undone - stateless schedule
exploration (vf/explore.py) with the reads stalled / held across the reorganisation, <= 1
(quick) / 2 (thorough) deviations.  An in-flight reply must be an error or correct for one of
the chains the daemon had; after quiescence every proof must again verify (Part A's oracle).
Part C (sliced undo jobs): header-proof requests served to completion at every storage / file
operation of every backup_block job (the undo runs in a worker thread while the loop serves).
'''
import itertools

from vf import chain, common, explore, reorgrun, system
from vf.chain import dsha
from vf.common import farm, finish

PROP = 'C11'
ACT = 3
BIG = ['cb', 'big400', 'big400', 'big400', 'sweep198', 'sweep199', 'sweep200', 'sweep299', 'sweep1',
       'old']                                   # tx counts 1,1,2,2,2,199,200,201,300,2,2
SMALL = ['cb', 'big400', 'sweep199', 'sweep200', 'old']       # 1,1,2,200,201,2 (height 5)


def levels(hashes):
    out = [list(hashes)]
    cur = list(hashes)
    while len(cur) > 1:
        if len(cur) & 1:
            cur = cur + [cur[-1]]
        cur = [dsha(cur[i] + cur[i + 1]) for i in range(0, len(cur), 2)]
        out.append(cur)
    return out


def fold(h, branch, index):
    for elt in branch:
        if elt == '*':
            e = h
        else:
            e = bytes.fromhex(elt)[::-1]
        h = dsha(e + h) if index & 1 else dsha(h + e)
        index >>= 1
    return h if index == 0 else None


def header_root_of(blk):
    return blk.header[36:68]


_HROOT = {}


def header_merkle_root(blocks, length):
    key = (blocks[length - 1].hash, length)
    if key not in _HROOT:
        _HROOT[key] = levels([b.hash for b in blocks[:length]])[-1][0]
    return _HROOT[key]


def check_tx_proof(r, blk, pos, kind):
    '''Does reply r prove tx `pos` of block blk?  Returns None if fine, else a reason.'''
    if 'error' in r:
        return 'refused: ' + str(r['error'].get('message'))[:80]
    x = r['result']
    txid = blk.txs[pos].txid
    root = header_root_of(blk)
    if kind == 'get_merkle':
        if x.get('pos') != pos or x.get('block_height') != blk.height:
            return 'wrong pos/height'
        return None if fold(txid, x['merkle'], pos) == root else 'branch does not fold to the header root'
    if kind == 'id_from_pos':
        if x.get('tx_hash') != txid[::-1].hex():
            return 'wrong tx hash'
        return None if fold(txid, x['merkle'], pos) == root else 'branch does not fold to the header root'
    # TSC
    if x.get('index') != pos:
        return 'wrong index'
    if fold(txid, x['nodes'], pos) != root:
        return 'TSC nodes do not fold to the header root'
    tt = x.get('targetType')
    want = {'block_hash': blk.hash[::-1].hex(), 'block_header': blk.header.hex(),
            'merkle_root': root[::-1].hex()}.get(tt)
    if x.get('target') != want:
        return 'wrong TSC target'
    return None


def check_header_proof(r, blocks, h, cp):
    if 'error' in r:
        return 'refused: ' + str(r['error'].get('message'))[:80]
    x = r['result']
    if not isinstance(x, dict) or x.get('header') != blocks[h].header.hex():
        return 'wrong header'
    root = header_merkle_root(blocks, cp + 1)
    if bytes.fromhex(x['root'])[::-1] != root:
        return 'wrong root'
    return None if fold(blocks[h].hash, x['branch'], h) == root else 'branch does not fold'


def full_proof_check(s, c, blocks, res, heights=None, failures=None, stride=1):
    '''Part A's oracle over the wire on client c.'''
    failures = failures if failures is not None else []
    tip = len(blocks) - 1
    for h in (heights if heights is not None else range(tip + 1)):
        blk = blocks[h]
        n = len(blk.txs)
        for pos in range(0, n, stride if n > 8 else 1):
            txhex = blk.txs[pos].txid[::-1].hex()
            reqs = [('get_merkle', 'blockchain.transaction.get_merkle', [txhex, h]),
                    ('id_from_pos', 'blockchain.transaction.id_from_pos', [h, pos, True])]
            if pos % 7 == 0 or n <= 8:
                for tt in ('block_hash', 'block_header', 'merkle_root'):
                    reqs.append(('tsc', 'blockchain.transaction.get_tsc_merkle', [txhex, h, 'txid', tt]))
                reqs.append(('tsc', 'blockchain.transaction.get_tsc_merkle', [txhex, h, 'tx', 'block_hash']))
            for kind, method, params in reqs:
                r = c.call(method, params)
                res.count('tx_proofs_checked')
                why = check_tx_proof(r, blk, pos, kind)
                if why:
                    failures.append((f'tx-proof:{kind}', dict(height=h, pos=pos, txs=n, why=why,
                                                              params=params[1:])))
                    return failures
        # outside the block / wrong height
        for method, params in (('blockchain.transaction.id_from_pos', [h, n, True]),
                               ('blockchain.transaction.get_merkle',
                                [blk.txs[0].txid[::-1].hex(), (h + 1) if h < tip else h - 1])):
            if params[-1] is True or 0 <= params[1] <= tip:
                r = c.call(method, params)
                res.count('out_of_range_requests')
                if 'error' not in r:
                    failures.append(('answered-outside-the-block', dict(method=method, height=h)))
                    return failures
    for cp in range(tip + 1):
        for h in range(cp + 1):
            if cp == 0:
                continue            # cp_height 0 means "no proof" in the protocol
            r = c.call('blockchain.block.header', [h, cp])
            res.count('header_proofs_checked')
            why = check_header_proof(r, blocks, h, cp)
            if why:
                failures.append(('header-proof', dict(height=h, cp_height=cp, why=why)))
                return failures
    # block.headers(start, count, cp): the proof is for the LAST header returned
    for start in (0, max(0, tip - 2), tip):
        for count in (1, 2, 3, tip + 5):
            for cp in (tip, tip - 1):
                avail = max(0, min(count, tip + 1 - start))
                last = start + avail - 1
                r = c.call('blockchain.block.headers', [start, count, cp])
                res.count('header_proofs_checked')
                if not 0 <= last <= cp:
                    if 'error' not in r and avail:
                        failures.append(('headers-proof-outside-chain-answered',
                                         dict(start=start, count=count, cp_height=cp)))
                        return failures
                    continue
                x = r.get('result')
                why = None
                if not isinstance(x, dict) or x.get('count') != avail or \
                        x.get('hex') != b''.join(b.header for b in blocks[start:start + avail]).hex():
                    why = 'wrong headers or refused: ' + str(r.get('error'))[:80]
                else:
                    root = header_merkle_root(blocks, cp + 1)
                    if bytes.fromhex(x.get('root', ''))[::-1] != root or \
                            fold(blocks[last].hash, x.get('branch', ()), last) != root:
                        why = 'proof does not verify for the last header returned'
                if why:
                    failures.append(('headers-proof', dict(start=start, count=count, cp_height=cp,
                                                           why=why)))
                    return failures
    for h, cp in ((tip, tip + 1), (tip + 1, tip + 1), (3, 2)):
        r = c.call('blockchain.block.header', [h, cp])
        res.count('out_of_range_requests')
        if 'error' not in r:
            failures.append(('header-proof-outside-chain-answered', dict(height=h, cp_height=cp)))
    r = c.call('blockchain.transaction.get_merkle', [blocks[1].txs[0].txid[::-1].hex(), tip + 1])
    if 'error' not in r:
        failures.append(('tx-proof-beyond-tip-answered', {}))
    return failures


def boot(blocks, immediate=True):
    s = system.System(reorg_limit=6, activation=ACT, immediate_daemon=immediate)
    s.x_chains = [blocks]
    s.x_blocks = blocks
    s.boot(blocks)
    s.daemon.add_known(blocks)
    c = s.connect(name='c1')
    c.call('server.version', ['c1', '1.4.2'])
    s.x_clients = {'c1': c}
    return s, c


# ---- part A -----------------------------------------------------------------------------------

HISTORIES = {
    'plain': lambda: [reorgrun.sim_for(BIG).blocks],
    # the 300-tx block and its neighbours replaced by other large blocks (other order)
    'reorg-big': lambda: [reorgrun.sim_for(BIG).blocks,
                          branch(BIG, 3, ['sweep299r', 'sweep1', 'old', 'cb'])],
    'reorg-deep': lambda: [reorgrun.sim_for(BIG).blocks,
                           branch(BIG, 5, ['sweep200r', 'sweep199r', 'sweep299r', 'old', 'cb', 'cb'])],
    'reorg-twice': lambda: [reorgrun.sim_for(SMALL).blocks,
                            branch(SMALL, 2, ['sweep200r', 'old', 'cb']),
                            branch(SMALL, 2, ['sweep200', 'cb', 'cb', 'old'], b'Z')],
}


def branch(base_recipes, depth, recipes, tag=b'Y'):
    base = reorgrun.sim_for(base_recipes)
    return reorgrun.make_branch(base_recipes, depth, recipes, tag, base).blocks


def case_history(case, res):
    chains = HISTORIES[case['history']]()
    s, c = boot(chains[0])
    failures = []
    try:
        for i, blocks in enumerate(chains):
            if i:
                s.daemon.add_known(blocks)
                s.daemon.set_chain(blocks)
                s.x_blocks = blocks
                s.settle()
            if s.db.state.height != len(blocks) - 1:
                failures.append(('index-not-at-tip', {}))
                break
            # between chains only warm the caches (large blocks, every header pair)
            last = i == len(chains) - 1
            big_heights = [h for h, b in enumerate(blocks) if len(b.txs) >= 150]
            full_proof_check(s, c, blocks, res, failures=failures,
                             heights=None if last else big_heights,
                             stride=1 if (last and case.get('all_positions')) else 9)
            if failures:
                break
        res.count('histories')
        res.distinct('histories', case['history'])
        dead = s.check_tasks()
        if dead:
            failures.append(('server-task-ended', dict(tasks=dead)))
    finally:
        s.close()
    for key, detail in failures[:1]:
        res.violation(f'{key}:{case["history"]}', case, detail)
    if case['history'] == 'reorg-big':
        res.sample({'history': case['history'], 'tx_counts': [len(b.txs) for b in chains[-1]]}, cap=1)


# ---- part B -----------------------------------------------------------------------------------

def scenario_b(name):
    base = reorgrun.sim_for(SMALL).blocks             # heights 0..5, blocks 3 and 4 large
    y = branch(SMALL, 3, ['sweep200r', 'sweep199r', 'cb', 'cb'])      # replaces 3, 4, 5; tip 6
    tip = len(base) - 1
    tx3 = base[3].txs[5].txid[::-1].hex()
    tx4 = base[4].txs[150].txid[::-1].hex()

    def ev_req(method, params, tag):
        def f(s):
            c = s.x_clients['c1']
            rid = c.request(method, params)
            s.x_inflight.append(dict(id=rid, method=method, params=params, tag=tag))
        return (tag, f)

    def ev_fork(s):
        s.daemon.add_known(y)
        s.daemon.set_chain(y)
        s.x_chains.append(y)
        s.x_blocks = y
    reqs = {
        'tx-proofs': [ev_req('blockchain.transaction.get_merkle', [tx3, 3], 'merkle3'),
                      ev_req('blockchain.transaction.id_from_pos', [4, 150, True], 'pos4'),
                      ev_req('blockchain.transaction.get_tsc_merkle', [tx4, 4, 'txid', 'merkle_root'],
                             'tsc4')],
        'header-proofs': [ev_req('blockchain.block.header', [2, tip], 'hdr-2-tip'),
                          ev_req('blockchain.block.header', [tip, tip], 'hdr-tip-tip'),
                          ev_req('blockchain.block.header', [1, tip - 1], 'hdr-1-tip1')],
        'warm-then-reorg': [ev_req('blockchain.transaction.get_merkle', [tx4, 4], 'merkle4'),
                            ev_req('blockchain.block.header', [3, tip], 'hdr-3-tip')],
        'burst': [],
        # a TSC proof of a large block (cached merkle path) in flight when the fork arrives;
        # its header read can be kept back across the whole reorganisation
        'tsc-in-flight': [ev_req('blockchain.transaction.get_tsc_merkle',
                                 [tx4, 4, 'txid', 'merkle_root'], 'tsc4-first'),
                          ev_req('blockchain.transaction.get_tsc_merkle',
                                 [tx4, 4, 'tx', 'block_header'], 'tsc4-second')],
        # a reorganisation of depth 1 (only the small tip block is replaced): short enough for
        # the whole second deviation level
        'short': [ev_req('blockchain.block.header', [2, tip], 's-hdr-2-tip'),
                  ev_req('blockchain.transaction.get_merkle', [tx4, 4], 's-merkle4'),
                  ev_req('blockchain.block.header', [tip, tip], 's-hdr-tip-tip')],
    }[name]
    if name == 'short':
        y = branch(SMALL, 1, ['cb', 'cb'])                           # replaces 5; tip 6
    if name == 'burst':
        # a client pipelines several proof requests: they are all in flight together, their
        # reads complete in any order (no reorganisation needed for them to interfere)
        def burst(s):
            for method, params, tag in (
                    ('blockchain.block.header', [2, tip], 'b-hdr-2-tip'),
                    ('blockchain.block.header', [1, tip - 2], 'b-hdr-1-tip2'),
                    ('blockchain.transaction.id_from_pos', [4, 150, True], 'b-pos4'),
                    ('blockchain.block.header', [tip - 1, tip - 1], 'b-hdr-tip1-tip1'),
                    ('blockchain.transaction.get_merkle', [tx4, 4], 'b-merkle4')):
                ev_req(method, params, tag)[1](s)
        return base, y, [('burst', burst), ('fork', ev_fork), 'tick', 'tick', 'tick', 'tick']
    # one request in flight when the fork arrives (so that each of its reads in turn is the
    # oldest pending job and can be stalled / held), the others while blocks are being undone
    script = reqs[:1] + [('fork', ev_fork), 'tick'] + reqs[1:] + ['tick', 'tick', 'tick']
    return base, y, script


def case_schedule(case, res):
    base, y, script = scenario_b(case['scenario'])

    def make():
        s, c = boot(base, immediate=False)
        s.x_inflight = []
        if case['scenario'] == 'warm-then-reorg':
            c.call('blockchain.transaction.get_merkle', [base[4].txs[7].txid[::-1].hex(), 4])
            c.call('blockchain.block.header', [2, len(base) - 1])
        return s

    def judge(run):
        s = run.s
        c = s.x_clients['c1']
        failures = []
        dead = s.check_tasks()
        if dead:
            return [('server-task-ended:' + case['scenario'], dict(tasks=dead))]
        # in-flight replies: an error, or correct for one of the chains the daemon had
        for req in s.x_inflight:
            r = c.reply(req['id'])
            res.count('in_flight_replies_judged')
            if r is None:
                failures.append(('request-never-answered:' + req['tag'], {}))
                continue
            if 'error' in r:
                res.count('in_flight_refused')
                if isinstance(r['error'], dict) and r['error'].get('code') == -32603:
                    failures.append(('in-flight-request-ended-in-internal-error:' + req['tag'], {}))
                continue
            ok = False
            for ch in s.x_chains:
                m, p = req['method'], req['params']
                if 'header' in m:
                    h, cp = p
                    ok = ok or (cp < len(ch) and check_header_proof(r, ch, h, cp) is None)
                else:
                    h = p[1] if 'id_from_pos' not in m else p[0]
                    if h >= len(ch):
                        continue
                    blk = ch[h]
                    if 'id_from_pos' in m:
                        ok = ok or (p[1] < len(blk.txs) and check_tx_proof(r, blk, p[1], 'id_from_pos') is None)
                    else:
                        ids = [t.txid[::-1].hex() for t in blk.txs]
                        if p[0] in ids:
                            kind = 'tsc' if 'tsc' in m else 'get_merkle'
                            ok = ok or check_tx_proof(r, blk, ids.index(p[0]), kind) is None
            if not ok:
                failures.append(('in-flight-proof-verifies-against-no-chain:' + req['tag'],
                                 dict(request=req['method'], params=str(req['params'])[:80])))
        if s.db.state.height != len(y) - 1:
            failures.append(('index-not-at-tip:' + case['scenario'], {}))
        elif not failures:
            full_proof_check(s, c, y, res, failures=failures, stride=23,
                             heights=[h for h in range(len(y)) if h >= 2])
            failures[:] = [(k + ':after-quiescence:' + case['scenario'], d) for k, d in failures]
        return failures

    explore.explore(make, lambda s: list(script), case['bound'], judge, res,
                    dict(case), only=case.get('choices'), closing_ticks=10, shard=case.get('shard'),
                    first=case.get('first'))
    res.distinct('scenarios', case['scenario'])


# ---- part C: requests served while a block is being undone in the worker thread --------------

SLICED_BASE = ['cb', 'fan', 'old', 'new', 'chain2', 'old', 'new', 'multi', 'old']


def sliced_chains(depth):
    base = reorgrun.sim_for(SLICED_BASE)
    y = reorgrun.make_branch(SLICED_BASE, depth, ['replay'] + ['new'] * depth, b'Y', base)
    return base.blocks, y.blocks


def sliced_requests(variant, tip):
    '''(h, cp): a header proof; ('pos', height, pos): id_from_pos with proof; ('tx', height,
    pos): get_merkle by hash.'''
    return {0: [(0, tip)], 1: [(tip - 1, tip - 1)], 2: [(0, tip), (tip, tip), (0, tip - 1)],
            3: [(tip - 2, tip)],
            4: [('pos', tip, 0), ('tx', tip, 1), ('pos', tip - 1, 1)],
            5: [('tx', tip, 0), (0, tip), ('pos', tip, 1)],
            # heights the block processor may already hold in memory but does not serve yet
            6: [('beyond', tip + 1, 0), ('beyond', tip + 2, 1), ('beyond', tip + 1, 1)],
            # several headers with a checkpoint; TSC proofs
            7: [('hdrs', tip - 2, 5, tip), ('tsc', tip, 1), ('hdrs', tip - 1, 2, tip), ('tsc', tip - 1, 0)]}[variant]


def send_sliced_requests(s, variant, base):
    c = s.x_clients['c1']
    tip0 = len(base) - 1
    for rq in sliced_requests(variant, tip0):
        if rq[0] == 'hdrs':
            rid = c.request('blockchain.block.headers', [rq[1], rq[2], rq[3]])
        elif rq[0] == 'tsc':
            pos = min(rq[2], len(base[rq[1]].txs) - 1)
            rid = c.request('blockchain.transaction.get_tsc_merkle',
                            [base[rq[1]].txs[pos].txid[::-1].hex(), rq[1], 'txid', 'block_header'])
        elif rq[0] == 'beyond':
            rid = c.request('blockchain.transaction.id_from_pos', [rq[1], rq[2], bool(rq[2])])
        elif rq[0] == 'pos':
            rid = c.request('blockchain.transaction.id_from_pos',
                            [rq[1], min(rq[2], len(base[rq[1]].txs) - 1), True])
        elif rq[0] == 'tx':
            pos = min(rq[2], len(base[rq[1]].txs) - 1)
            rid = c.request('blockchain.transaction.get_merkle',
                            [base[rq[1]].txs[pos].txid[::-1].hex(), rq[1]])
        else:
            rid = c.request('blockchain.block.header', list(rq))
        s.x_reqs.append((rid,) + tuple(rq))


def judge_sliced(s, base, y, depth, res):
    c = s.x_clients['c1']
    tip0 = len(base) - 1
    failures = []
    dead = s.check_tasks()
    if dead:
        return [('server-task-ended', dict(tasks=dead))]
    if s.db.state.height != len(y) - 1:
        return [('index-not-at-tip', dict(height=s.db.state.height))]
    s.settle()
    for rid, h, cp, *more in s.x_reqs:
        r = c.reply(rid)
        res.count('in_flight_replies_judged')
        if r is None:
            failures.append(('request-never-answered', dict(request=[h, cp] + more)))
        elif 'error' in r:
            res.count('in_flight_refused')
            if isinstance(r['error'], dict) and r['error'].get('code') == -32603:
                failures.append(('in-flight-request-ended-in-internal-error',
                                 dict(request=[h, cp] + more)))
        elif h == 'hdrs':
            start, count, cpx = cp, more[0], more[1]
            x = r.get('result')
            good = False
            for ch in (base, y):
                n = x.get('count') if isinstance(x, dict) else None
                if not isinstance(n, int) or start + n > len(ch) or cpx >= len(ch):
                    continue
                if x.get('hex') != b''.join(b.header for b in ch[start:start + n]).hex():
                    continue
                if not n:
                    good = True
                    continue
                root = header_merkle_root(ch, cpx + 1)
                last = start + n - 1
                if last <= cpx and bytes.fromhex(x.get('root', ''))[::-1] == root and \
                        fold(ch[last].hash, x.get('branch', ()), last) == root:
                    good = True
            if not good:
                failures.append(('in-flight-proof-verifies-against-no-chain',
                                 dict(request=[h, cp] + more)))
        elif h == 'tsc':
            height, pos = cp, min(more[0], len(base[cp].txs) - 1)
            want = base[height].txs[pos].txid
            good = False
            for ch in (base, y):
                if height < len(ch):
                    ids = [t.txid for t in ch[height].txs]
                    if want in ids:
                        good = good or check_tx_proof(dict(r, result=dict(r['result'], targetType='block_header')),
                                                      ch[height], ids.index(want), 'tsc') is None
            if not good:
                failures.append(('in-flight-proof-verifies-against-no-chain',
                                 dict(request=[h, cp] + more)))
        elif h == 'beyond':
            # answered: fine if the new chain really has that transaction (the flush may be done)
            height, pos = cp, more[0]
            good = height < len(y) and pos < len(y[height].txs)
            if good and pos:
                good = check_tx_proof(r, y[height], pos, 'id_from_pos') is None
            elif good:
                good = r.get('result') == y[height].txs[pos].txid[::-1].hex()
            if not good:
                failures.append(('request-beyond-the-served-chain-answered-wrongly',
                                 dict(request=[h, cp] + more)))
        elif h in ('pos', 'tx'):
            height, pos = cp, min(more[0], len(base[cp].txs) - 1)
            kind = 'id_from_pos' if h == 'pos' else 'get_merkle'
            want = base[height].txs[pos].txid
            ok = False
            for ch in (base, y):
                if height < len(ch):
                    ids = [t.txid for t in ch[height].txs]
                    p2 = pos if h == 'pos' else (ids.index(want) if want in ids else None)
                    ok = ok or (p2 is not None and p2 < len(ids) and
                                check_tx_proof(r, ch[height], p2, kind) is None)
            if not ok:
                failures.append(('in-flight-proof-verifies-against-no-chain',
                                 dict(request=[h, cp] + more)))
        elif not any(cp < len(ch) and check_header_proof(r, ch, h, cp) is None
                     for ch in (base, y)):
            failures.append(('in-flight-proof-verifies-against-no-chain', dict(h=h, cp=cp)))
    if not failures:
        full_proof_check(s, c, y, res, failures=failures,
                         heights=range(max(0, tip0 - depth - 1), len(y)))
    if not failures:
        # afterwards every header proof must verify against the chain the server is on
        tip = len(y) - 1
        for cp in range(1, tip + 1):        # cp_height 0 means "no proof" in the protocol
            for h in range(cp + 1):
                r = c.call('blockchain.block.header', [h, cp])
                res.count('header_proofs_checked')
                why = check_header_proof(r, y, h, cp)
                if why:
                    return [('header-proof-after-undo', dict(h=h, cp=cp, why=why))]
    return failures


def case_sliced(case, res):
    '''The undo of a block, the indexing of the new branch and the flushes run in a worker thread
    while the event loop keeps serving clients: proof requests are served at every slice point
    of every mutating job of a reorganisation (vf/slicedsys.py); case['torn']: the requests'
    own reads are torn by the mutation (split mode).'''
    from vf import slicedsys
    base, y = sliced_chains(case['depth'])
    tip0 = len(base) - 1

    def make():
        s, c = boot(base, immediate=True)
        for h, cp in case.get('warm', [(0, tip0)]):
            c.call('blockchain.block.header', [h, cp])
        s.x_reqs = []
        return s

    def fork(s):
        s.daemon.add_known(y)
        s.daemon.set_chain(y)
        s.x_chains.append(y)
        s.x_blocks = y

    script_of = lambda s: [('fork', fork), 'tick', 'tick', 'tick']
    inject = lambda s: send_sliced_requests(s, case['variant'], base)
    judge = lambda run: judge_sliced(run.s, base, y, case['depth'], res)
    if case.get('torn'):
        found = slicedsys.enumerate_splits(make, script_of, inject, judge, res,
                                           f'depth {case["depth"]}', only=case.get('kib'),
                                           i_max=3, b_set=case.get('b_set', (1, 2, 4, 8)))
        for kib, key, detail in found:
            res.violation(f'{key}:read-torn-by-a-reorganisation', dict(case, kib=list(kib)),
                          dict(detail, depth=case['depth'],
                               requests=sliced_requests(case['variant'], tip0)))
    else:
        found = slicedsys.enumerate_points(make, script_of, inject, judge, res,
                                           f'depth {case["depth"]}', only_k=case.get('k'))
        for k, key, detail in found:
            res.violation(f'{key}:served-while-a-block-is-undone', dict(case, k=k),
                          dict(detail, depth=case['depth'],
                               requests=sliced_requests(case['variant'], tip0)))


def case_populate(case, res):
    '''The Controller populates the header merkle cache in a task of its own: its one big read
    is made, a reorganisation of depth d completes, then the read's result is handed over.'''
    base = reorgrun.sim_for(SMALL).blocks
    d = case['populate']
    y = branch(SMALL, d, ['cb'] * (d + 1))
    s = system.System(reorg_limit=case['limit'], activation=ACT)
    failures = []
    try:
        s.x_chains = [base, y]
        s.x_blocks = base
        s.boot(base, populate='stalled')
        s.daemon.add_known(base)
        c = s.connect(name='c1')
        c.call('server.version', ['c1', '1.4.2'])
        s.x_clients = {'c1': c}
        tip = len(base) - 1
        rid = c.request('blockchain.block.header', [1, tip]) if case['ask_first'] else None
        s.daemon.add_known(y)
        s.daemon.set_chain(y)
        s.x_blocks = y
        s.settle()
        if s.db.state.height != len(y) - 1:
            raise common.Broken('the reorganisation did not complete while the cache was populating')
        s.x_populate_job.deliver()
        s.settle()
        if not s.populate_task.done() or s.populate_task.exception():
            failures.append(('populating-the-header-merkle-cache-failed', dict(
                error=repr(s.populate_task.exception()) if s.populate_task.done() else 'never ended')))
        if rid is not None and not failures:
            r = c.reply(rid)
            if r is None:
                failures.append(('request-never-answered', {}))
            elif 'result' in r and check_header_proof(r, base, 1, tip) is not None and \
                    (tip >= len(y) or check_header_proof(r, y, 1, tip) is not None):
                failures.append(('in-flight-proof-verifies-against-no-chain', {}))
        if not failures:
            # first the checkpoints from the fork point down (nothing may extend the cache before)
            full_proof_check(s, c, y, res, failures=failures, stride=23,
                             heights=list(range(len(y) - 1, -1, -1)) if case['down'] else None)
        res.count('reorgs_during_the_populating_read')
        dead = s.check_tasks()
        if dead:
            failures.append(('server-task-ended', dict(tasks=dead)))
    finally:
        s.close()
    for key, detail in failures[:1]:
        res.violation(f'{key}:populate-across-reorg', case, detail)


def run_case(case, res):
    if 'populate' in case:
        case_populate(case, res)
    elif 'history' in case:
        case_history(case, res)
    elif 'sliced' in case:
        case_sliced(case, res)
    else:
        case_schedule(case, res)


# slices of the second deviation level.  Only warm-then-reorg's is kept: a slice is heaviest at the
# EARLY occurrences of its label (the read kept back from the start stays in every later menu),
# and those of header-proofs / tx-proofs / tsc-in-flight were still running after 30 minutes
BOUND2 = {'warm-then-reorg': ('stall:J:read_headers',)}


def cases_for(tier):
    return _cases_for(tier) + [dict(populate=d, limit=limit, ask_first=a, down=dn)
                               for d in (1, 2, 3) for limit in (3, 6, 50) for a in (False, True)
                               for dn in (False, True)]


def _cases_for(tier):
    q = tier == 'quick'
    cases = [dict(history=h, all_positions=not q) for h in HISTORIES]
    for scn in ('tx-proofs', 'header-proofs', 'warm-then-reorg', 'burst', 'tsc-in-flight'):
        for i in range(5):
            cases.append(dict(scenario=scn, bound=1, shard=[i, 5]))
    if not q:
        # slices of bound 2 (the full second level did not finish in hours): every vector whose
        # FIRST deviation keeps back a proof's own read
        for scn, firsts in BOUND2.items():
            for first in firsts:
                n = 16
                for i in range(n):
                    cases.append(dict(scenario=scn, bound=2, first=first, shard=[i, n]))
    for depth in (1, 2) if q else (1, 2, 3):
        for variant in range(8):
            cases.append(dict(sliced=True, depth=depth, variant=variant))
    # reads of the requests themselves torn by the mutation
    for depth in (1,) if q else (1, 2):
        for variant in (2, 4) if q else range(6):
            cases.append(dict(sliced=True, torn=True, depth=depth, variant=variant))
    return cases


def run(tier, seed, started):
    common.setup_imports()
    cases = cases_for(tier)
    res = farm(run_case, cases, seed=seed, chunk=1)
    c = res.counters
    kinds = res.sets.get('deviation_kinds', set())
    if c.get('tx_proofs_checked', 0) < 1000 or c.get('header_proofs_checked', 0) < 100 or \
            not {'stall', 'hold'} <= kinds or not c.get('in_flight_replies_judged') or \
            c.get('sliced_executions', 0) < 50:
        common.vacuous(PROP, res, f'vacuous C11 run: {c} {kinds}')
    coverage = {
        'evaluations': c['tx_proofs_checked'] + c['header_proofs_checked'] + c['executions'],
        'distinct_nontrivial': len(res.sets.get('schedules', ())) + c['histories'],
        'rule': ('A: 4 chain histories (plain, large blocks replaced at depth 3 and 5, two reorgs in a '
                 'row) x every block x positions (every 9th in quick, all in thorough, all for small '
                 'blocks) x 6 proof request kinds, and every (h <= cp <= tip) header proof; B: 5 '
                 'in-flight scenarios x every choice vector with deviation cost <= bound; C: sliced '
                 'undo jobs x 6 request sets x every slice point'),
        'tx_proofs_checked': c['tx_proofs_checked'], 'header_proofs_checked': c['header_proofs_checked'],
        'out_of_range_requests': c.get('out_of_range_requests', 0),
        'in_flight_replies_judged': c['in_flight_replies_judged'],
        'in_flight_refused': c.get('in_flight_refused', 0),
        'schedule_executions': c['executions'],
        'sliced_undo_executions': c.get('sliced_executions', 0),
        'torn_read_executions': c.get('torn_read_executions', 0),
        'slice_points_per_reorg': c.get('max:slice_points'),
        'deviation_bound_completed': 1 if tier == 'quick' else
        '1 on all scenarios; of bound 2 the slice whose first deviation stalls a read_headers '
        'job, on ' + ', '.join(BOUND2),
        'deviation_kinds_used': sorted(kinds),
        'exhaustive': True,
    }
    assumptions = ['parts A, B: choice points only where the loop\'s ready queue is empty, worker '
                   'jobs atomic; part C: backup_block sliced at its storage / file operations',
                   'MerkleCache.truncate is called from the worker thread in reality; preemption '
                   'inside it is not modelled']
    return finish(PROP, tier, seed, 'exploration', res, coverage, assumptions, started)


def replay(path):
    return common.standard_replay(PROP, path, run_case)
