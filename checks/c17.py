'''C17 - replies stay within the advertised size limits.

Exhaustive enumeration of inputs x configurations over the wire, on one really indexed chain of
2,020 blocks whose script hashes have confirmed histories of exactly limit-1 .. limit+2 entries
for every derived limit (MAX_SEND in {0, 350000, 350063, 350064, 350163, unset}):
 * blockchain.block.headers(start, count, cp) for start around 0 and the chain end (also on
   the image left by a crash after the flat files ran two blocks past the committed tip), count
   around 0, the 2016 cap and the distance to the tip, cp around the last header and the tip;
 * scripthash.get_history / subscribe, each twice (cold and cached), for every history length;
 * a subscription whose history grows past the limit with the next block;
 * a history read in flight across that block (made after it / made before and handed over
   after it; with and without another cached history touched by the same block), then the same
   requests again from the cache.
Oracle: count = min(count, 2016, available) = len(hex)/160, max = 2016, headers and proofs
equal the reference; a history reply is always the complete history; 'history too large' is
returned when the history has more than max_send // 99 entries and never for fewer (exactly at
the limit either outcome, but the same cold and cached);
a failed subscribe leaves no subscription; every status ever sent is None or the status of the
complete history.
'''
import itertools
import json
from hashlib import sha256

from vf import chain, common, system, world
from vf.common import farm, finish

PROP = 'C17'
NBLOCKS = 2020
LENGTHS = [3534, 3535, 3536, 3537, 3538, 3539]
CONFIGS = {'0': 350000, '100000': 350000, '350000': 350000, '350063': 350063, '350064': 350064, '350163': 350163,
           'unset': 1000000}
GROW = 3534            # the script that gains entries with the extra blocks


def script_for(n):
    return b'\x51' + bytes([0x60 + LENGTHS.index(n)])


_CHAIN = None


def long_chain():
    '''2,020 blocks; tx i pays every script whose target length exceeds i, so script n gets a
    history of exactly n entries.  Two more blocks extend script GROW by one entry each.'''
    global _CHAIN
    if _CHAIN is not None:
        return _CHAIN
    sim = chain.Sim(5, b'')
    sim.collisions = []
    sim.add_block([sim.cb()], 'genesis')
    prev = (sim.blocks[0].txs[0].txid, 0)
    value = 50_0000_0000
    ntx = max(LENGTHS)
    i = 0
    per_block = 2
    for h in range(1, NBLOCKS + 1):
        txs = []
        for _ in range(per_block):
            if i >= ntx:
                break
            outs = [(1, script_for(n)) for n in LENGTHS if n > i]
            value -= len(outs)
            t = chain.Tx([(prev[0], prev[1], b'\x51', 0xffffffff)],
                         [(value, chain.SCRIPTS['S'])] + outs)
            prev = (t.txid, 0)
            txs.append(t)
            i += 1
        sim.add_block([sim.cb()] + txs, 'fill')
    base = list(sim.blocks)
    more = []
    for _ in range(2):
        value -= 1
        t = chain.Tx([(prev[0], prev[1], b'\x51', 0xffffffff)],
                     [(value, chain.SCRIPTS['S']), (1, script_for(GROW))])
        prev = (t.txid, 0)
        sim.add_block([sim.cb(), t], 'grow')
        more.append(sim.blocks[-1])
    _CHAIN = (base, more)
    # a competing branch off the base tip: three blocks with nothing but coinbases
    alt = chain.Sim(5, b'Z')
    alt.collisions = []
    alt.blocks = list(base)
    for _ in range(3):
        alt.add_block([alt.cb()], 'alt')
    _ALT.extend(alt.blocks[-3:])
    return _CHAIN


_ALT = []


def case_shrink(case, res):
    '''A history beyond the limit (the refusal is cached) shrinks below it through a
    reorganisation: afterwards the complete history is served, cold and cached.'''
    config, m = case['config'], case['method']
    base, more = long_chain()
    limit = CONFIGS[config] // 99
    s = boot(config)
    try:
        c = s.connect()
        c.call('server.version', ['x', '1.4.2'])
        sh = chain.scripthash_hex(script_for(GROW))
        s.daemon.set_chain(base + more)
        s.settle()
        long_ref = ref_history(base + more, script_for(GROW))
        bad = None
        for m1 in (m, 'get_history'):
            why = outcome_bad(c.call('blockchain.scripthash.' + m1, [sh]), m1, long_ref, limit)
            if why:
                bad = f'before-the-reorg:{m1}:{why}'
        if case.get('disconnect'):
            c.protocol.connection_lost(None)
            s.run_idle()
        s.daemon.add_known(base + more)
        s.daemon.set_chain(base + _ALT)
        s.settle()
        if s.db.state.height != len(base) + 2:
            raise common.Broken('the reorganisation did not happen')
        if case.get('disconnect'):
            c = s.connect()
            c.call('server.version', ['y', '1.4.2'])
        short_ref = ref_history(base + _ALT, script_for(GROW))
        if not bad:
            for m2 in ('get_history', 'subscribe', 'get_history'):
                why = outcome_bad(c.call('blockchain.scripthash.' + m2, [sh]), m2, short_ref, limit)
                if why:
                    bad = f'after-the-reorg:{m2}:{why}'
                    break
        res.count('histories_shrunk_by_a_reorg')
        if bad:
            res.violation('history-shrunk-by-a-reorg:' + bad.split('(')[0], dict(case),
                          dict(case, limit=limit, entries_before=len(long_ref),
                               entries_after=len(short_ref), problem=bad))
        res.distinct('parts', 'shrink')
    finally:
        s.close()


_SNAP = None


def indexed_snapshot():
    '''Index the long chain once per worker process; later runs start from a copy.'''
    global _SNAP
    if _SNAP is None:
        base, _more = long_chain()
        m = world.Machine()
        w = world.World(m, reorg_limit=10, activation=5, prefetch=100)
        w.daemon.set_chain(base)
        w.start_sync()
        w.run_until_caught_up(max_steps=3_000_000)
        if not w.at_daemon_tip():
            raise common.Broken('long chain did not index')
        w.close(destroy=False)
        m.log.clear()
        _SNAP = m.snapshot()
        m.destroy()
    return _SNAP


_STALE = None


def stale_tail_image():
    '''The image left by a crash after two more blocks' headers / tx hashes were written to the
    flat files (history-only flush) but before any UTXO commit: the files run past the tip.'''
    global _STALE
    if _STALE is None:
        base, more = long_chain()
        tip = len(base) - 1
        m = world.Machine.from_snapshot(indexed_snapshot())
        w = world.World(m, reorg_limit=10, activation=5)
        w.daemon.set_chain(base + more)
        w.flush_schedule = {tip + 1: False, tip + 2: False}
        w.start_sync()
        w.run_until_caught_up()
        log = list(m.log)
        w.close(destroy=False)
        m.destroy()
        cut = next(i for i, e in enumerate(log) if e[0] == 'db' and e[1].endswith('utxo')
                   and e[2] == 'batch')
        if not any(e[0] == 'write' and 'headers' in e[1] for e in log[:cut]):
            raise common.Broken('no header write before the UTXO commit')
        _STALE = (log[:cut],)
    return _STALE[0]


def boot(config, stale_tail=False):
    base, more = long_chain()
    m = world.Machine.from_snapshot(indexed_snapshot(), stale_tail_image() if stale_tail else ())
    ms = None if config == 'unset' else int(config)
    s = system.System(m, reorg_limit=10, activation=5, max_send=ms)
    s.boot(base)
    return s


def ref_history(blocks, script):
    out = []
    for b in blocks:
        for t in b.txs:
            if any(o[1] == script for o in t.outputs):
                out.append((t.txid[::-1].hex(), b.height))
    return out


def status_of(hist):
    s = ''.join(f'{h}:{ht}:' for h, ht in hist)
    return sha256(s.encode()).hexdigest() if s else None


def dsha(b):
    return chain.dsha(b)


def merkle_levels(hashes):
    levels = [list(hashes)]
    cur = list(hashes)
    while len(cur) > 1:
        if len(cur) & 1:
            cur = cur + [cur[-1]]
        cur = [dsha(cur[i] + cur[i + 1]) for i in range(0, len(cur), 2)]
        levels.append(cur)
    return levels


_ROOTS = {}


def header_root(blocks, length):
    key = length
    if key not in _ROOTS:
        _ROOTS[key] = merkle_levels([b.hash for b in blocks[:length]])[-1][0]
    return _ROOTS[key]


def fold(h, branch, index):
    for elt in branch:
        h = dsha(elt + h) if index & 1 else dsha(h + elt)
        index >>= 1
    return h


def case_headers(case, res):
    base, _ = long_chain()
    tip = len(base) - 1
    s = boot('350000', stale_tail=case.get('stale_tail', False))
    if s.db.state.height != tip:
        raise common.Broken('index not at the expected tip')
    try:
        c = s.connect()
        c.call('server.version', ['x', '1.4.2'])
        starts = [0, 1, tip - 2, tip - 1, tip, tip + 1, tip + 2]
        for start in starts[case['lo']:case['hi']]:
            to_tip = tip - start + 1
            counts = sorted({0, 1, 2, 2015, 2016, 2017, 10 ** 6} |
                            {x for x in (to_tip - 1, to_tip, to_tip + 1) if x >= 0})
            for count in counts:
                avail = max(0, min(count, 2016, tip - start + 1))
                last = start + avail - 1
                cps = sorted({0, tip, tip + 1} | {x for x in (last - 1, last, last + 1) if x >= 0})
                for cp in cps:
                    r = c.call('blockchain.block.headers', [start, count, cp])
                    res.count('headers_requests')
                    bad = None
                    proof_ok = avail == 0 or cp == 0 or (last <= cp <= tip)
                    if 'error' in r:
                        if proof_ok:
                            bad = ('headers-request-refused', dict(error=r['error']))
                        elif r['error'].get('code') == -32603:
                            bad = ('internal-error', dict(error=r['error']))
                    else:
                        x = r['result']
                        want_hex = b''.join(b.header for b in base[start:start + avail]).hex()
                        if x.get('count') != avail or len(x.get('hex', '')) != 160 * avail:
                            bad = ('wrong-count', dict(got=x.get('count'), want=avail,
                                                       hexlen=len(x.get('hex', ''))))
                        elif x.get('max') != 2016:
                            bad = ('wrong-max', dict(got=x.get('max')))
                        elif x['hex'] != want_hex:
                            bad = ('wrong-headers', {})
                        elif not proof_ok:
                            bad = ('proof-given-outside-range', dict(cp=cp, last=last))
                        elif avail and cp:
                            root = header_root(base, cp + 1)
                            if 'root' not in x or bytes.fromhex(x['root'])[::-1] != root or \
                                    fold(base[last].hash, [bytes.fromhex(e)[::-1] for e in x['branch']],
                                         last) != root:
                                bad = ('header-proof-wrong', dict(cp=cp, last=last))
                        elif 'root' in x and not (avail and cp):
                            pass
                    if bad:
                        res.violation('headers:' + bad[0], dict(kind='headers1', start=start,
                                                                count=count, cp=cp,
                                                                stale_tail=case.get('stale_tail', False)),
                                      {**bad[1], "start": start, "count": count, "cp": cp})
        res.distinct('parts', 'headers')
    finally:
        s.close()


def case_one_header(case, res):
    case_headers(dict(lo=0, hi=0), res)     # placeholder for replay symmetry


def case_history(case, res):
    config = case['config']
    base, more = long_chain()
    limit = CONFIGS[config] // 99
    s = boot(config)
    try:
        c = s.connect()
        c.call('server.version', ['x', '1.4.2'])
        # whatever MAX_SEND says, a standard chunk of 2016 headers fits (the documented floor)
        r = c.call('blockchain.block.headers', [0, 2016])
        res.count('history_requests')
        if 'error' in r or r['result'].get('count') != 2016:
            res.violation('headers:standard-chunk-refused-under-this-max-send',
                          dict(kind='history', config=config, order=case['order']),
                          dict(config=config, reply=str(r.get('error') or r['result'].get('count'))[:200]))
        for n in LENGTHS:
            script = script_for(n)
            sh = chain.scripthash_hex(script)
            hx = chain.script_hashX(script)
            ref = ref_history(base, script)
            if len(ref) != n:
                raise common.Broken('long chain histories are not as designed')
            too_large = n >= limit
            boundary = n == limit           # exactly at the derived limit either outcome is
            first_outcome = {}              # acceptable, but it must be the same cold and cached
            order = case['order']           # which request comes first (cold)
            if order == 'admin-first':
                # the operator looks at the script first (LocalRPC query, 1000 lines at most)
                rpc = s.x_rpc = getattr(s, 'x_rpc', None) or s.connect(name='rpc', rpc=True)
                r = rpc.call('query', [[script.hex()], 1000])
                if not isinstance(r.get('result'), list):
                    raise common.Broken(f'admin query failed: {r}')
                res.count('admin_queries')
            seq = {'hist-first': ['get_history', 'get_history', 'subscribe', 'subscribe'],
                   'admin-first': ['get_history', 'subscribe', 'get_history', 'subscribe'],
                   'sub-first': ['subscribe', 'subscribe', 'get_history', 'get_history'],
                   'mixed': ['subscribe', 'get_history', 'subscribe', 'get_history']}[order]
            for j, m in enumerate(seq):
                r = c.call('blockchain.scripthash.' + m, [sh])
                res.count('history_requests')
                bad = None
                if boundary:
                    outcome = 'error' in r
                    if first_outcome.setdefault(m, outcome) != outcome:
                        bad = ('inconsistent-cold-vs-cached', dict(entries=n, limit=limit))
                    too_large_here = outcome
                else:
                    too_large_here = too_large
                if bad:
                    pass
                elif too_large_here:
                    if 'error' not in r:
                        bad = ('no-error-for-too-large-history', dict(entries=n, limit=limit))
                    elif 'too large' not in str(r['error'].get('message')):
                        bad = ('wrong-error-for-too-large-history', dict(error=r['error']))
                    elif hx in c.session.hashX_subs:
                        bad = ('failed-subscribe-left-a-subscription', {})
                else:
                    if 'error' in r:
                        bad = ('complete-history-refused', dict(entries=n, limit=limit,
                                                                error=r['error']))
                    elif m == 'get_history':
                        got = [(e['tx_hash'], e['height']) for e in r['result']]
                        if got != ref:
                            bad = ('history-not-complete', dict(got=len(got), want=n))
                    elif r['result'] != status_of(ref):
                        bad = ('status-not-of-complete-history', {})
                if bad:
                    res.violation(f'history:{bad[0]}:{"cached" if j else "cold"}',
                                  dict(kind='history', config=config, order=order),
                                  dict(dict(config=config, limit=limit, entries=n, request=m,
                                            nth=j), **bad[1]))
                res.distinct('length_vs_limit', (n - limit, m, j > 0))
        # growth: the script with GROW entries gains one per extra block
        script = script_for(GROW)
        sh = chain.scripthash_hex(script)
        hx = chain.script_hashX(script)
        was_subscribed = hx in c.session.hashX_subs
        chain_now = list(base)
        for blk in more:
            chain_now.append(blk)
            s.daemon.set_chain(chain_now)
            s.settle()
            n = GROW + len(chain_now) - len(base)
            ref = ref_history(chain_now, script)
            sent = [m_['params'][1] for m_ in c.notifications('blockchain.scripthash.subscribe')
                    if m_['params'][0] == sh]
            ok_values = {None, status_of(ref), status_of(ref[:-1]), status_of(ref[:-2])}
            for st in sent:
                if st not in ok_values:
                    res.violation('history:status-from-truncated-history-sent',
                                  dict(kind='history', config=config, order=case['order']),
                                  dict(config=config, entries=n, limit=limit, status=st))
            if n >= limit and hx in c.session.hashX_subs:
                res.violation('history:outgrown-subscription-not-dropped',
                              dict(kind='history', config=config, order=case['order']),
                              dict(config=config, entries=n, limit=limit))
            if was_subscribed and n < limit and (not sent or sent[-1] != status_of(ref)):
                res.violation('history:subscriber-not-told-new-status',
                              dict(kind='history', config=config, order=case['order']),
                              dict(config=config, entries=n, limit=limit, sent=len(sent)))
            res.count('growth_steps')
            r = c.call('blockchain.scripthash.get_history', [sh])
            if (n >= limit) != ('error' in r):
                res.violation('history:after-growth-wrong-outcome',
                              dict(kind='history', config=config, order=case['order']),
                              dict(config=config, entries=n, limit=limit, error=r.get('error')))
        res.distinct('parts', 'history')
        if s.check_tasks():
            res.violation('server-task-died', case, dict(tasks=s.check_tasks()))
    finally:
        s.close()
    if config == '350064' and case['order'] == 'mixed':
        res.sample({'config': config, 'limit': limit, 'lengths': LENGTHS}, cap=1)


def outcome_bad(r, m, ref, limit):
    '''Is reply r (to method m) right for a script whose complete confirmed history is ref?'''
    n = len(ref)
    if n == limit:                  # exactly at the derived limit either outcome is acceptable
        if 'error' in r:
            return None if 'too large' in str(r['error'].get('message')) else 'wrong-error'
    elif n > limit:
        if 'error' not in r:
            return 'no-error-for-too-large-history'
        return None if 'too large' in str(r['error'].get('message')) else 'wrong-error'
    if 'error' in r:
        return 'complete-history-refused'
    if m == 'get_history':
        got = [(e['tx_hash'], e['height']) for e in r['result']]
        return None if got == ref else f'history-not-complete({len(got)} of {n})'
    return None if r['result'] == status_of(ref) else 'status-not-of-complete-history'


def case_inflight(case, res):
    '''A history read in flight (held: made after; stalled: made before, handed over after)
    across the block that makes a history grow and the notification that goes with it.'''
    config, n, variant, m = case['config'], case['n'], case['variant'], case['method']
    base, more = long_chain()
    limit = CONFIGS[config] // 99
    s = boot(config)
    try:
        c = s.connect()
        c.call('server.version', ['x', '1.4.2'])
        if case.get('other_cached'):
            # some other script's history is in the cache and is touched by the block
            c.call('blockchain.scripthash.get_history', [chain.scripthash_hex(chain.SCRIPTS['S'])])
        script = script_for(n)
        sh = chain.scripthash_hex(script)
        if variant == 'nobody-connected':
            # the history is cached, every client disconnects, the block arrives while nobody is
            # connected, then a client connects
            c.call('blockchain.scripthash.get_history', [sh])
            for sess in list(s.session_mgr.sessions):
                sess.transport.connection_lost(None) if hasattr(sess.transport, 'connection_lost') \
                    else None
            c.protocol.connection_lost(None)
            s.run_idle()
            if s.session_mgr.sessions:
                raise common.Broken('sessions still connected')
            after = base + more[:1]
            s.daemon.set_chain(after)
            s.settle()
            c = s.connect()
            c.call('server.version', ['y', '1.4.2'])
            res.count('inflight_history_requests')
            ref1 = ref_history(after, script)
            bad = None
            for m2 in (m, 'get_history'):
                r2 = c.call('blockchain.scripthash.' + m2, [sh])
                why = outcome_bad(r2, m2, ref1, limit)
                if why:
                    bad = f'afterwards:{m2}:{why}'
                    break
            if bad:
                res.violation('history-cached-while-nobody-was-connected:' + bad.split('(')[0], dict(case),
                              dict(case, limit=limit, entries_after=len(ref1), problem=bad))
            res.distinct('parts', 'inflight')
            return
        rid = c.request('blockchain.scripthash.' + m, [sh])
        while s.loop.step_ready():
            pass
        jobs = s.loop.pending_jobs()
        if not jobs:
            raise common.Broken('the history request did not start a read')
        job = jobs[0]
        if variant == 'hold':
            job.held = True
        else:
            s.loop.run_job(job, deliver=False)
        after = base + more[:1]
        s.daemon.set_chain(after)
        if variant == 'stall-mid-notify':
            # the read (made before the block) is handed over while the block's notification
            # is waiting for its own header read
            def header_read_pending():
                return any(getattr(j.func, '__name__', '') == 'read_headers' and not j.held
                           for j in s.loop.pending_jobs())
            for _ in range(40):
                if s.run_idle(until=header_read_pending):
                    break
                if not s.loop.fire_polling_timer():
                    break
            hdr = [j for j in s.loop.pending_jobs()
                   if getattr(j.func, '__name__', '') == 'read_headers']
            if not hdr:
                raise common.Broken('the notification never read the new header')
            hdr[0].held = True
            job.deliver()
            while s.loop.step_ready():
                pass
            hdr[0].held = False
        s.settle()
        if s.db.state.height != len(after) - 1:
            raise common.Broken('the block was not indexed while the read was in flight')
        if variant != 'stall-mid-notify' and c.reply(rid) is not None:
            raise common.Broken('the request was answered although its read was kept back')
        if variant == 'hold':
            job.held = False
        elif variant == 'stall':
            job.deliver()
        s.settle()
        res.count('inflight_history_requests')
        r1 = c.reply(rid)
        refs = [ref_history(base, script), ref_history(after, script)]
        bad = None
        if r1 is None:
            bad = 'never-answered'
        else:
            why = [outcome_bad(r1, m, ref, limit) for ref in refs]
            if all(why):
                bad = 'in-flight:' + why[1]
        if not bad:
            # at quiescence (and from the cache) only the current chain counts
            for m2 in ('get_history', 'subscribe', 'get_history'):
                r2 = c.call('blockchain.scripthash.' + m2, [sh])
                why = outcome_bad(r2, m2, refs[1], limit)
                if why:
                    bad = f'afterwards:{m2}:{why}'
                    break
                hx = chain.script_hashX(script)
                if 'error' in r2 and hx in c.session.hashX_subs:
                    bad = 'failed-subscribe-left-a-subscription'
                    break
        if bad:
            res.violation('history-read-across-a-block:' + bad.split('(')[0], dict(case),
                          dict(case, limit=limit, entries_before=len(refs[0]),
                               entries_after=len(refs[1]), problem=bad))
        res.distinct('parts', 'inflight')
        if s.check_tasks():
            res.violation('server-task-died', case, dict(tasks=s.check_tasks()))
    finally:
        s.close()


def run_case(case, res):
    if case['kind'] == 'shrink':
        case_shrink(case, res)
    elif case['kind'] == 'inflight':
        case_inflight(case, res)
    elif case['kind'] == 'headers':
        case_headers(case, res)
    elif case['kind'] == 'headers1':
        base, _ = long_chain()
        s = boot('350000', stale_tail=case.get('stale_tail', False))
        try:
            c = s.connect()
            r = c.call('blockchain.block.headers', [case['start'], case['count'], case['cp']])
            print('reply:', json.dumps(r)[:300])
        finally:
            s.close()
    else:
        case_history(case, res)


def cases_for(tier):
    cases = [dict(kind='headers', lo=i, hi=i + 1, stale_tail=st) for i in range(7)
             for st in (False, True)]
    for config in CONFIGS:
        for order in ('hist-first', 'sub-first', 'mixed', 'admin-first'):
            cases.append(dict(kind='history', config=config, order=order))
    for config in CONFIGS:
        for n in LENGTHS:
            for variant in ('hold', 'stall', 'stall-mid-notify', 'nobody-connected'):
                for m in ('get_history', 'subscribe'):
                    for other in (False, True):
                        cases.append(dict(kind='inflight', config=config, n=n, variant=variant,
                                          method=m, other_cached=other))
    for config in CONFIGS:
        for m in ('get_history', 'subscribe'):
            for disconnect in (False, True):
                cases.append(dict(kind='shrink', config=config, method=m, disconnect=disconnect))
    return cases


def run(tier, seed, started):
    cases = cases_for(tier)
    res = farm(run_case, cases, seed=seed, chunk=1)
    c = res.counters
    if c.get('headers_requests', 0) < 500 or c.get('history_requests', 0) < 300 or \
            not c.get('growth_steps') or c.get('inflight_history_requests', 0) < 100:
        common.vacuous(PROP, res, f'vacuous C17 run: {c}')
    coverage = {
        'evaluations': c['headers_requests'] + c['history_requests'] + c['growth_steps']
        + c['inflight_history_requests'],
        'distinct_nontrivial': len(res.sets.get('length_vs_limit', ())) + c['headers_requests'],
        'rule': ('headers: start in {0,1,tip-2..tip+2} x count in {0,1,2,2015,2016,2017,to-tip-1,'
                 'to-tip,to-tip+1,10^6} x cp in {0,last-1,last,last+1,tip,tip+1}; histories: 6 '
                 'MAX_SEND settings x 6 history lengths (3534..3539 around limits 3535/3536/3537) x '
                 '3 request orders x (cold, cached) x (get_history, subscribe); growth of a '
                 'subscribed history by two blocks; non-trivial = distinct (length - limit, method, '
                 'cached) + header requests'),
        'headers_requests': c['headers_requests'], 'history_requests': c['history_requests'],
        'growth_steps': c['growth_steps'],
        'history_reads_in_flight_across_a_block': c['inflight_history_requests'],
        'exhaustive': True,
    }
    assumptions = ['chain of 2,020 blocks indexed once per worker through the real pipeline and '
                   'copied per run', 'SessionManager raises MAX_SEND to at least 350000']
    return finish(PROP, tier, seed, 'exploration', res, coverage, assumptions, started)


def replay(path):
    return common.standard_replay(PROP, path, run_case)
