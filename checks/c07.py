'''C07 - subscribers converge on the true status and tip: no change is ever lost.

Stateless schedule exploration (vf/explore.py, iterative deviation bounding) of the full system:
real block processor, mempool tracker, Notifications, SessionManager and two real ElectrumX
client sessions (plus a LocalRPC session for forced reorgs) over a scheduled daemon.
Scenarios: a tx enters the mempool then confirms; two blocks in quick succession with mempool
churn; natural reorgs whose orphaned txs return / reconfirm / vanish; forced reorgs (chain
unchanged, queried meanwhile, silently switched); a cache-pressure flush at an intermediate
height; subscribe / unsubscribe / queries placed among the events.  Every quiescent point is a
choice point (environment or timer overtaking a slow reply / job, younger item first, hold +
release); all choice vectors with at most 1 (quick) / 2 (thorough) deviations.
Oracle at quiescence: the last status each client holds for every script hash it is subscribed
to is a protocol status of that script on the daemon's final chain and mempool (mempool part in
any order); the last header it holds is the tip; no header notification for height h was written
while the index was below h.  Every Notifications call sequence seen is also checked against the
environment automaton of C20 (binding of that model to the code).
Part B (vf/slicedsys.py): worker jobs are not atomic in the server - subscriptions (by an
existing client, or by one that connects at that moment) are served at EVERY slice point
(storage / file operation) of every advance_block / backup_block / flush_dbs job of 9 scenarios;
same oracle.
'''
from vf import common, explore, fullrun, slicedsys, system
from vf.common import farm, finish

PROP = 'C07'


def run_case(case, res):
    if 'sliced' in case:
        return case_sliced(case, res)
    scns = fullrun.scenarios()
    scn = scns[case['scenario']]

    def judge(run):
        out = [(k + ':' + case['scenario'], d) for k, d in fullrun.judge_c07(run, res)]
        if not fullrun.bind_c20(run, res) and not out:
            out.append(('notifications-call-not-enabled-in-c20-automaton:' + case['scenario'],
                        dict(calls=run.s.calls_log[-8:])))
        return out

    explore.explore(lambda: fullrun.make(scn), lambda s: scn['script'](), case['bound'], judge, res,
                    dict(case), only=case.get('choices'), closing_ticks=12,
                    shard=case.get('shard'),
                    max_execs=case.get('max_execs'), first=case.get('first'))
    res.distinct('scenarios', case['scenario'])
    if case['scenario'] == 'enter-confirm':
        res.sample({'scenario': case['scenario'], 'bound': case['bound']}, cap=1)


SLICED = ('enter-confirm', 'two-blocks', 'reorg-return', 'reorg-reconfirm', 'reorg-vanish-depth2',
          'reorg-depth2-distinct-scripts', 'forced-switched', 'pressure-flush', 'parent-unconfirms')


def inject_subscriptions(variant):
    '''Subscriptions made in the middle of a worker job: by an existing client (0) or by a client
    that connects at that moment (1).'''
    def f(s):
        if variant == 0:
            c = s.x_clients['c2']
        else:
            c = s.x_clients['c3'] = system.Client(s, name='c3')
            c.request('server.version', ['c3', '1.4.2'])
        c.request('blockchain.headers.subscribe', [])
        for k in ('A', 'C', 'D', 'B'):
            c.request('blockchain.scripthash.subscribe', [fullrun.sh(k)])
    return f


def case_sliced(case, res):
    '''Part B: subscriptions served at slice point k of the mutating worker jobs.'''
    scn = fullrun.scenarios()[case['scenario']]

    def judge(run):
        out = [(k + ':' + case['scenario'] + ':subscribed-mid-job', d)
               for k, d in fullrun.judge_c07(run, res)]
        for cname, c in run.s.x_clients.items():
            for m in c.messages:
                if isinstance(m.get('error'), dict) and m['error'].get('code') == -32603:
                    sent = {x['id']: x for x in c.x_sent}.get(m.get('id'), {})
                    out.append(('subscription-mid-job-ended-in-internal-error:' + case['scenario'],
                                dict(client=cname, method=sent.get('method'),
                                     params=str(sent.get('params'))[:80])))
                    return out
        return out

    found = slicedsys.enumerate_points(
        lambda: fullrun.make(scn, immediate=True), lambda s: scn['script'](),
        inject_subscriptions(case['variant']), judge, res, case['scenario'], closing_ticks=12,
        only_k=case.get('k'))
    for k, key, detail in found:
        res.violation(key, dict(case, k=k), detail)
    res.distinct('sliced_scenarios', case['scenario'])


BOUND2 = ('forced-unchanged', 'late-subscribe', 'subscribe-then-mempool', 'lonely-read',
          'enter-confirm', 'untouched-block', 'overlapping-passes-a', 'overlapping-passes-d')


def cases_for(tier):
    cases = [dict(scenario=name, bound=1, shard=[i, 4]) for name in fullrun.scenarios()
             for i in range(4)]
    if tier != 'quick':
        # two deviations on the shorter scenarios (the others would take hours)
        cases = [c for c in cases if c['scenario'] not in BOUND2]
        cases += [dict(scenario=name, bound=2, shard=[i, 16]) for name in BOUND2 for i in range(16)]
    for name in SLICED:
        for variant in (0, 1):
            cases.append(dict(sliced=True, scenario=name, variant=variant))
    if tier == 'quick':
        # a slice of bound 2: every vector whose first deviation lets the mempool see the new
        # height before the block processor reports it (the flush job's return is kept back)
        for name in ('overlapping-passes-a', 'overlapping-passes-d'):
            cases.append(dict(scenario=name, bound=2, first='stall:J:flush_dbs'))
    return cases


def run(tier, seed, started):
    common.setup_imports()
    cases = cases_for(tier)
    res = farm(run_case, cases, seed=seed, chunk=1)
    c = res.counters
    kinds = res.sets.get('deviation_kinds', set())
    if c.get('executions', 0) < 300 or not {'next', 'hold', 'release', 'run'} <= kinds or \
            not c.get('statuses_judged') or not c.get('headers_judged') or \
            c.get('sliced_executions', 0) < 200:
        common.vacuous(PROP, res, f'vacuous C07 run: {c} {kinds}')
    coverage = {
        'evaluations': c['executions'] + c['sliced_executions'],
        'distinct_nontrivial': len(res.sets.get('schedules', ())),
        'rule': (f'{len(fullrun.scenarios())} scenarios x every choice vector with total deviation cost <= bound over the '
                 'quiescent points of the explored phase; distinct = (scenario, choice vector)'),
        'deviation_bound_completed': 1 if tier == 'quick' else '2 on ' + ', '.join(BOUND2) + '; 1 on the others',
        'choice_points': c['choice_points'],
        'max_choice_points_in_one_execution': c.get('max:choice_points_in_one_execution'),
        'statuses_judged': c['statuses_judged'], 'headers_judged': c['headers_judged'],
        'sliced_executions(subscriptions served mid-job)': c['sliced_executions'],
        'notification_call_sequences_accepted_by_c20_automaton': c.get('c20_traces_accepted', 0),
        'c20_event_kinds_witnessed': sorted(res.sets.get('c20_event_kinds', ())),
        'deviation_kinds_used': sorted(kinds),
        'exhaustive': c.get('exploration_cap_hits', 0) == 0,
    }
    assumptions = ['choice points only where the loop\'s ready queue is empty', 'worker jobs atomic',
                   'protocol time-outs never fire', 'two clients, five watched script hashes']
    return finish(PROP, tier, seed, 'exploration', res, coverage, assumptions, started)


def replay(path):
    return common.standard_replay(PROP, path, run_case)
