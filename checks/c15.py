'''C15 - exactly the configured window of recent blocks can be undone.

Exhaustive bounded enumeration on the real block processor: reorg limit in {1,2,3,5,50} x
daemon-height trajectories during sync (the daemon's extension placed at every n-th scheduler
step of the sync, or block by block after catch-up) x a clean restart at several heights x
fork depth in {limit-1, limit, limit+1}, natural and forced.
Oracle: depth <= limit always succeeds and ends equal to the reference / a fresh server;
depth limit+1 either succeeds or stops with the "no undo information" error and a database
that reopens as an exact index of some height of the old chain; after every open no undo row
lies below height-limit+1.
'''
import itertools

from vf import common, observe, reorgrun, world
from vf.common import farm, finish

PROP = 'C15'
ACT = reorgrun.ACTIVATION
# (heights 8 and 11 are coinbase-only blocks: their undo information exists but is empty)
BASE = ['cb', 'fan', 'chain2', 'old', 'new', 'multi', 'self', 'cb', 'new', 'chain2', 'cb', 'old']
LIMITS = (1, 2, 3, 5, 50)


def undo_heights(w):
    return sorted(int.from_bytes(k[1:], 'big') for k, _v in w.db.utxo_db.iterator(prefix=b'U')
                  if len(k) == 5)


def check_window_after_open(w, limit, failures, label):
    h = w.db.state.height
    low = [u for u in undo_heights(w) if u < h - limit + 1]
    if low:
        failures.append((f'{label}:undo-rows-older-than-window-after-open',
                         dict(height=h, limit=limit, stale=low)))


def run_case(case, res):
    limit, depth, kind = case['limit'], case['depth'], case['kind']
    base = reorgrun.sim_for(BASE)
    blocks = base.blocks
    H = len(blocks) - 1
    failures = []
    m = world.Machine()
    wp = dict(reorg_limit=limit, activation=ACT, prefetch=case.get('prefetch', 100))
    try:
        w = world.World(m, **wp)
        w.daemon.set_chain(blocks[:case['h0'] + 1])
        w.start_sync()
        k = case.get('k')
        if k is None:
            # caught up at h0, then the daemon grows one block per poll
            w.run_until_caught_up()
            for h in range(case['h0'] + 1, H + 1):
                w.daemon.set_chain(blocks[:h + 1])
                w.poll()
        else:
            def hook(n):
                if n == k:
                    w.daemon.set_chain(blocks)
            w.run_until_caught_up(step_hook=hook)
            res.maxi('sync_steps', w.sync_steps)
            if w.bp.state.height < H:
                w.daemon.set_chain(blocks)
                w.poll()
        if not w.at_daemon_tip():
            raise common.Broken('base sync did not reach the tip')
        if case.get('restart'):
            w.close(destroy=False)
            w = world.World(m, **wp)
            w.daemon.set_chain(blocks)
            w.start_sync()
            w.run_until_caught_up()
            check_window_after_open(w, limit, failures, 'after-restart')
            res.count('restarts')
        # the reorganisation
        if kind == 'natural':
            y = reorgrun.make_branch(BASE, depth, ['replay'] + ['new'] * depth, b'Y', base)
            final = y.blocks
            w.daemon.set_chain(final)
        else:
            if not w.bp.force_chain_reorg(depth):
                raise common.Broken('forced reorg refused')
            final = reorgrun.sim_for(BASE + ['new']).blocks
            w.daemon.set_chain(final)
        died = None
        try:
            w.poll()
        except world.SyncFailed as e:
            died = e.args[0]
        except world.Stalled as e:
            failures.append(('stalled', dict(error=repr(e))))
        res.count('executions')
        res.distinct('relation', ('depth<=limit' if depth <= limit else 'depth=limit+1', kind,
                                  'died' if died else 'ok'))
        if died is None and not failures:
            reorgrun.check_final(w, final, res, failures, limit, label='after-reorg', populate=True)
        elif died is not None:
            ok_refusal = depth > limit and 'no undo information' in str(died)
            if not ok_refusal:
                failures.append(('reorg-within-window-failed' if depth <= limit else
                                 'reorg-beyond-window-died-oddly',
                                 dict(error=repr(died), depth=depth, limit=limit)))
            else:
                # the database left behind must still be an exact index of some old-chain height
                w.close(destroy=False)
                w2 = world.World(m, **wp)
                try:
                    w2.daemon.set_chain(blocks)
                    st = w2.loop.run_coro(w2.db.open_for_sync(), fire_timers=False)
                    ref = observe.ref_at(blocks, st.height, ACT)
                    try:
                        obs = observe.observe(w2, ref, what=reorgrun.WHAT)
                        bad = observe.compare(obs, ref, reorgrun.WHAT)
                    except (world.ReaderBlocked, observe.ReadFailed) as e:
                        bad = [('read-failed', repr(e))]
                    for field, detail in bad:
                        failures.append((f'after-refused-reorg:{field}', dict(height=st.height)))
                    res.count('refused_reorgs_reopened')
                finally:
                    w2.close(destroy=False)
    finally:
        try:
            w.close(destroy=False)
        except Exception:       # noqa
            pass
        m.destroy()
    for field, detail in failures[:2]:
        res.violation(field.split(':')[-1], case, dict(field=field, **{
            a: b for a, b in detail.items() if a in ('error', 'height', 'limit', 'stale', 'depth',
                                                     'script', 'fields', 'cp_height')}))
    if case['limit'] == 2 and case['depth'] == 2 and case.get('k') in (0, 14, 15):
        res.sample(case, cap=2)


def cases_for(tier):
    q = tier == 'quick'
    cases = []
    H = len(BASE)
    trajs = [dict(h0=H, k=0)]
    for h0 in ((7, 10) if q else (6, 8, 10, 11)):
        trajs.append(dict(h0=h0, k=None))
        for k in range(0, 420, 14 if q else 5):
            trajs.append(dict(h0=h0, k=k))
    for limit in LIMITS:
        for depth in sorted({limit - 1, limit, limit + 1}):
            if depth < 1 or 2 * depth > H or depth > 6:
                continue
            for kind in ('natural', 'forced'):
                for tr in trajs:
                    for restart in (False, True):
                        if restart and tr.get('k') not in (None, 0, 14, 42) and q:
                            continue
                        cases.append(dict(limit=limit, depth=depth, kind=kind, restart=restart,
                                          prefetch=100 if (tr.get('k') or 0) % 2 == 0 else 3, **tr))
    return cases


def run(tier, seed, started):
    cases = cases_for(tier)
    res = farm(run_case, cases, seed=seed)
    c = res.counters
    rel = res.sets.get('relation', set())
    need = {('depth<=limit', 'natural'), ('depth<=limit', 'forced'),
            ('depth=limit+1', 'natural'), ('depth=limit+1', 'forced')}
    if not need <= {r[:2] for r in rel} or not c.get('restarts'):
        common.vacuous(PROP, res, f'vacuous C15 run: {rel} {c}')
    coverage = {
        'evaluations': c['executions'],
        'distinct_nontrivial': len(rel) + len(cases) // 2,
        'rule': ('product reorg limit x fork depth (limit-1, limit, limit+1) x natural/forced x '
                 'trajectory (daemon extension at every n-th scheduler step of the sync, or block by '
                 'block) x restart; distinct_nontrivial = half the cases (each trajectory differs in '
                 'which blocks were indexed how far behind the daemon) + outcome classes'),
        'outcome_classes': sorted(rel), 'restarts': c['restarts'],
        'refused_reorgs_reopened': c.get('refused_reorgs_reopened', 0),
        'sync_steps_covered': c.get('max:sync_steps'),
        'exhaustive': True,
        'bounds': {'tier': tier, 'cases': len(cases), 'chain_height': len(BASE)},
    }
    assumptions = ['undo rows are recognised as keys U + 4-byte big-endian height in the UTXO DB '
                   '(the property names this observation point)',
                   'chain height 12; depth <= 6 (height >= 2 x depth)']
    return finish(PROP, tier, seed, 'exploration', res, coverage, assumptions, started)


def replay(path):
    return common.standard_replay(PROP, path, run_case)
