'''C15 - exactly the configured window of recent blocks can be undone.

Exhaustive bounded enumeration on the real block processor: reorg limit in {1,2,3,5,50} x
daemon-height trajectories during sync (the daemon's extension placed at every n-th scheduler
step of the sync, or block by block after catch-up) x a clean restart at several heights x
fork depth in {limit-1, limit, limit+1}, natural and forced; a clean shutdown at every n-th
scheduler step of the INITIAL sync followed by a restart; a chain of 265 blocks.
Oracle: depth <= limit always succeeds and ends equal to the reference / a fresh server;
depth limit+1 either succeeds or stops with the "no undo information" error and a database
that reopens as an exact index of some height of the old chain; after every open no undo row
lies below height-limit+1.
'''
import itertools

from vf import common, observe, reorgrun, world
from vf.common import farm, finish

PROP = 'C15'
ACT = reorgrun.ACTIVATION
# (heights 8 and 11 are coinbase-only blocks: their undo information exists but is empty)
BASE = ['cb', 'fan', 'chain2', 'old', 'new', 'multi', 'self', 'cb', 'new', 'chain2', 'cb', 'old']
LIMITS = (1, 2, 3, 5, 50)


def undo_heights(w):
    return sorted(int.from_bytes(k[1:], 'big') for k, _v in w.db.utxo_db.iterator(prefix=b'U')
                  if len(k) == 5)


def check_window_after_open(w, limit, failures, label):
    h = w.db.state.height
    low = [u for u in undo_heights(w) if u < h - limit + 1]
    if low:
        failures.append((f'{label}:undo-rows-older-than-window-after-open',
                         dict(height=h, limit=limit, stale=low)))
    # ... and whatever the key format: no more undo rows than the window has blocks
    n = sum(1 for k, _v in w.db.utxo_db.iterator(prefix=b'U') if len(k) == 5)
    if n > max(limit, 0) and not low:
        failures.append((f'{label}:more-undo-rows-than-the-window-after-open',
                         dict(height=h, limit=limit, rows=n)))


class _StopNow(Exception):
    pass


class _GiveUp(Exception):
    pass


def clean_stop(w):
    '''What the server does on SIGTERM: shutdown event + cancellation; the task flushes.'''
    w.shutdown_event.set()
    w.bp_task.cancel()
    guard = 0
    while not w.bp_task.done():
        guard += 1
        if guard > 100000:
            raise common.Broken('the block processor does not stop')
        if w.loop.step_ready():
            continue
        jobs = w.loop.pending_jobs()
        if jobs:
            w._after_job(w.loop.run_job(jobs[0]))
            continue
        if w.daemon.pending:
            w.daemon.deliver(w.daemon.pending[0])
            continue
        raise common.Broken('the block processor hangs in its shutdown')


LONG = ['fan'] + (['cb'] * 20 + ['old', 'cb', 'new', 'cb']) * 11          # 265 blocks


def run_case(case, res):
    limit, depth, kind = case['limit'], case['depth'], case['kind']
    recipes = LONG if case.get('long') else BASE
    base = reorgrun.sim_for(recipes)
    blocks = base.blocks
    H = len(blocks) - 1
    failures = []
    m = world.Machine()
    wp = dict(reorg_limit=limit, activation=ACT, prefetch=case.get('prefetch', 100))
    coin_saved = None
    try:
        w = world.World(m, **wp)
        if case.get('coin_default') is not None:
            # the configured limit differs from the coin's built-in default
            coin_saved = (w.env.coin, w.env.coin.REORG_LIMIT)
            w.env.coin.REORG_LIMIT = case['coin_default']
        w.daemon.set_chain(blocks[:case['h0'] + 1])
        w.start_sync()
        k = case.get('k')
        if case.get('stop_at') is not None:
            # a clean shutdown in the middle of the initial sync, then a restart
            def stop_hook(n):
                if n == case['stop_at']:
                    raise _StopNow()
            w.daemon.set_chain(blocks)
            try:
                w.run_until_caught_up(step_hook=stop_hook)
            except _StopNow:
                try:
                    clean_stop(w)
                    if not w.bp_task.cancelled() and w.bp_task.exception():
                        raise world.SyncFailed(w.bp_task.exception())
                    res.distinct('stopped_at_heights', w.db.state.height)
                    w.close(destroy=False)
                    w = world.World(m, **wp)
                    w.daemon.set_chain(blocks)
                    w.start_sync()
                    w.run_until_caught_up()
                    res.count('restarts_during_initial_sync')
                except world.SyncFailed as e:
                    # the shutdown flush or the run after it died: no window to speak of
                    failures.append(('clean-shutdown-during-initial-sync-or-the-restart-died',
                                     dict(error=repr(e))))
                    raise _GiveUp()
        elif k is None:
            # caught up at h0, then the daemon grows one block per poll
            w.run_until_caught_up()
            for h in range(case['h0'] + 1, H + 1):
                w.daemon.set_chain(blocks[:h + 1])
                w.poll()
        else:
            def hook(n):
                if n == k:
                    w.daemon.set_chain(blocks)
            w.run_until_caught_up(step_hook=hook)
            res.maxi('sync_steps', w.sync_steps)
            if w.bp.state.height < H:
                w.daemon.set_chain(blocks)
                w.poll()
        if not w.at_daemon_tip():
            raise common.Broken('base sync did not reach the tip')
        if case.get('restart'):
            w.close(destroy=False)
            w = world.World(m, **wp)
            w.daemon.set_chain(blocks)
            w.start_sync()
            w.run_until_caught_up()
            check_window_after_open(w, limit, failures, 'after-restart')
            res.count('restarts')
        # the reorganisation
        if kind == 'natural':
            y = reorgrun.make_branch(recipes, depth, ['replay'] + ['new'] * depth, b'Y', base)
            final = y.blocks
            w.daemon.set_chain(final)
        else:
            if not w.bp.force_chain_reorg(depth):
                raise common.Broken('forced reorg refused')
            final = reorgrun.sim_for(recipes + ['new']).blocks
            w.daemon.set_chain(final)
        died = None
        undone = []
        w.on_job_end = lambda job: undone.append(1) if getattr(job.func, '__name__', '') == \
            'backup_block' else None
        try:
            w.poll()
        except world.SyncFailed as e:
            died = e.args[0]
        except world.Stalled as e:
            failures.append(('stalled', dict(error=repr(e))))
        res.count('executions')
        res.distinct('relation', ('depth<=limit' if depth <= limit else 'depth=limit+1', kind,
                                  'died' if died else 'ok'))
        if died is None and not failures and kind == 'forced' and len(undone) != depth:
            # the operator's `reorg N` within the window undoes exactly N blocks
            failures.append(('forced-reorg-undid-another-number-of-blocks',
                             dict(depth=depth, limit=limit, error=f'{len(undone)} blocks undone')))
        if died is None and not failures:
            reorgrun.check_final(w, final, res, failures, limit, label='after-reorg', populate=True)
        elif died is not None:
            ok_refusal = depth > limit and 'no undo information' in str(died)
            if not ok_refusal:
                failures.append(('reorg-within-window-failed' if depth <= limit else
                                 'reorg-beyond-window-died-oddly',
                                 dict(error=repr(died), depth=depth, limit=limit)))
            else:
                # the database left behind must still be an exact index of some old-chain height
                w.close(destroy=False)
                w2 = world.World(m, **wp)
                try:
                    w2.daemon.set_chain(blocks)
                    st = w2.loop.run_coro(w2.db.open_for_sync(), fire_timers=False)
                    ref = observe.ref_at(blocks, st.height, ACT)
                    try:
                        obs = observe.observe(w2, ref, what=reorgrun.WHAT)
                        bad = observe.compare(obs, ref, reorgrun.WHAT)
                    except (world.ReaderBlocked, observe.ReadFailed) as e:
                        bad = [('read-failed', repr(e))]
                    for field, detail in bad:
                        failures.append((f'after-refused-reorg:{field}', dict(height=st.height)))
                    res.count('refused_reorgs_reopened')
                finally:
                    w2.close(destroy=False)
    except _GiveUp:
        pass
    finally:
        if coin_saved:
            coin_saved[0].REORG_LIMIT = coin_saved[1]
        try:
            w.close(destroy=False)
        except Exception:       # noqa
            pass
        m.destroy()
    for field, detail in failures[:2]:
        res.violation(field.split(':')[-1], case, dict(field=field, **{
            a: b for a, b in detail.items() if a in ('error', 'height', 'limit', 'stale', 'depth',
                                                     'script', 'fields', 'cp_height')}))
    if case['limit'] == 2 and case['depth'] == 2 and case.get('k') in (0, 14, 15):
        res.sample(case, cap=2)


def cases_for(tier):
    q = tier == 'quick'
    cases = []
    H = len(BASE)
    trajs = [dict(h0=H, k=0)]
    for h0 in ((7, 10) if q else (6, 8, 10, 11)):
        trajs.append(dict(h0=h0, k=None))
        for k in range(0, 420, 14 if q else 5):
            trajs.append(dict(h0=h0, k=k))
    for limit in LIMITS:
        for depth in sorted({limit - 1, limit, limit + 1}):
            if depth < 1 or 2 * depth > H or depth > 6:
                continue
            for kind in ('natural', 'forced'):
                for tr in trajs:
                    for restart in (False, True):
                        if restart and tr.get('k') not in (None, 0, 14, 42) and q:
                            continue
                        cases.append(dict(limit=limit, depth=depth, kind=kind, restart=restart,
                                          prefetch=100 if (tr.get('k') or 0) % 2 == 0 else 3, **tr))
    # a clean shutdown at every n-th scheduler step of the initial sync, then a restart
    for limit in LIMITS:
        for depth in sorted({limit - 1, limit}):
            if depth < 1 or 2 * depth > H or depth > 6:
                continue
            for stop_at in range(3, 330, 13 if q else 4):
                cases.append(dict(limit=limit, depth=depth, kind='natural', restart=False,
                                  prefetch=100 if stop_at % 2 else 3, h0=H, k=0, stop_at=stop_at))
    # the configured limit above / below the coin's built-in default
    for coin_default in (2, 50):
        for depth in (3, 4, 5):
            for restart in (True, False):
                for kind in ('natural', 'forced'):
                    cases.append(dict(limit=5, depth=depth, kind=kind, restart=restart, h0=H, k=0,
                                      coin_default=coin_default))
    # a chain higher than 255 blocks (undo keys differ above their low byte): synced to 250,
    # then block by block, restarted, reorganised
    for limit, depth in ((5, 5), (3, 2)):
        for restart in (True, False):
            cases.append(dict(limit=limit, depth=depth, kind='natural', restart=restart, h0=250, k=None,
                              long=True))
    return cases


def run(tier, seed, started):
    cases = cases_for(tier)
    res = farm(run_case, cases, seed=seed)
    c = res.counters
    rel = res.sets.get('relation', set())
    need = {('depth<=limit', 'natural'), ('depth<=limit', 'forced'),
            ('depth=limit+1', 'natural'), ('depth=limit+1', 'forced')}
    if not need <= {r[:2] for r in rel} or not c.get('restarts') or \
            c.get('restarts_during_initial_sync', 0) < 20:
        common.vacuous(PROP, res, f'vacuous C15 run: {rel} {c}')
    coverage = {
        'evaluations': c['executions'],
        'distinct_nontrivial': len(rel) + len(cases) // 2,
        'rule': ('product reorg limit x fork depth (limit-1, limit, limit+1) x natural/forced x '
                 'trajectory (daemon extension at every n-th scheduler step of the sync, or block by '
                 'block) x restart; distinct_nontrivial = half the cases (each trajectory differs in '
                 'which blocks were indexed how far behind the daemon) + outcome classes'),
        'outcome_classes': sorted(rel), 'restarts': c['restarts'],
        'restarts_during_initial_sync': c['restarts_during_initial_sync'],
        'heights_of_those_shutdowns': sorted(res.sets.get('stopped_at_heights', ())),
        'refused_reorgs_reopened': c.get('refused_reorgs_reopened', 0),
        'sync_steps_covered': c.get('max:sync_steps'),
        'exhaustive': True,
        'bounds': {'tier': tier, 'cases': len(cases), 'chain_height': len(BASE)},
    }
    assumptions = ['undo rows are recognised as keys U + 4-byte big-endian height in the UTXO DB '
                   '(the property names this observation point)',
                   'chain height 12; depth <= 6 (height >= 2 x depth)']
    return finish(PROP, tier, seed, 'exploration', res, coverage, assumptions, started)


def replay(path):
    return common.standard_replay(PROP, path, run_case)
