'''C19 - only verified, public, recently good peers are advertised, spread over networks.

Part A (exhaustive inputs): peer populations as a product over slots (three IPv4 peers in one
/16, one in another, three IPv6 in one /56, a private address, host names with and without a
resolved address, N onion peers crossing both caps, the server's own identities) x per-peer
state (good / stale / never / bad / absent) x tor / clearnet requester x outcomes of
random.shuffle (all permutations of small buckets, several of large ones), through the real
PeerManager.on_peers_subscribe.
Part B (exhaustive inputs): feature dictionaries for Peer.peers_from_features over hosts x port
values from a JSON alphabet x container shapes.
Part C (exhaustive histories): "in any state" includes states only a history reaches.  Every
sequence up to a depth of peer-life events - a (re-)verification of a peer through the real
PeerManager._should_drop_peer / _verify_peer against a scripted remote (answers correctly from an
address in a crowded network or elsewhere, wrong genesis hash, unreachable), the clock advancing,
a client's server.peers.subscribe - judged after every subscribe against a reference that knows
only what the remotes did: where each peer was last reached and when it last answered correctly.
'''
import ipaddress
import itertools
import re

from vf import common
from vf.common import farm, finish

PROP = 'C19'
NOW = 1_800_000_000.0
STALE = 3 * 3600
A4 = ['23.45.3.4', '23.45.9.9', '23.45.200.1']
B4 = ['8.8.8.8']
C6 = ['2a01:4f8:c0c:1::1', '2a01:4f8:c0c:2::9', '2a01:4f8:c0c:ff::3']
PRIVATE = ['192.168.1.5', '10.1.2.3']
HOSTS = [('foo.example.com', '23.45.77.7'), ('bar.example.org', None), ('baz.example.net', '9.9.9.9')]
# clearnet names that merely CONTAIN a label "onion", resolving into the first /16
ONIONISH = [('onion.example.net', '23.45.78.1'), ('eu.Onion.example.org', '23.45.79.1')]
STATE_TIMES = {'good': NOW - 10, 'stale': NOW - STALE - 100, 'never': 0, 'bad': NOW - 10}


class FixedTime:
    now = NOW

    def __getattr__(self, n):
        import time
        return getattr(time, n)

    def time(self):
        return self.now


def mk_peer(host, state, ip_addr=None):
    from electrumx.lib.peer import Peer
    p = Peer(host, {'hosts': {host: {'tcp_port': 50001, 'ssl_port': 50002}}}, 'test',
             ip_addr=ip_addr if ip_addr is not None else (None if _is_name(host) else host))
    p.last_good = STATE_TIMES[state]
    # whatever the outcome of the last verification, the last ATTEMPT is recent (retries go on)
    p.last_try = NOW - 5
    if state == 'bad':
        p.mark_bad()
    return p


def via_session(pm, tor):
    '''server.peers.subscribe as a client session reaches the peer manager: the real handler
    ElectrumX.peers_subscribe on a bare session whose remote address is / is not the Tor
    proxy's.'''
    from aiorpcx import NetAddress
    from electrumx.server.session import ElectrumX
    s = ElectrumX.__new__(ElectrumX)
    s.peer_mgr = pm
    s.bump_cost = lambda cost: None
    s.remote_address = lambda: NetAddress('127.0.0.1' if tor else '8.8.4.4', 12345)
    saved = pm.proxy
    pm.proxy = type('Proxy', (), {'address': NetAddress('127.0.0.1', 9050)})()
    try:
        coro = s.peers_subscribe()
        try:
            coro.send(None)
        except StopIteration as e:
            return e.value
        coro.close()
        raise RuntimeError('peers_subscribe suspended')
    finally:
        pm.proxy = saved


def _is_name(host):
    try:
        ipaddress.ip_address(host)
        return False
    except ValueError:
        return True


def ext_bucket(peer_host, ip_addr):
    if peer_host.endswith('.onion'):
        return 'onion'
    if not ip_addr:
        return ''
    ip = ipaddress.ip_address(ip_addr)
    if ip.version == 4:
        return str(ipaddress.ip_network(f'{ip}/16', strict=False))
    return str(ipaddress.ip_network(f'{ip}/56', strict=False))


def routable(host, ip_addr_unused=None):
    try:
        ip = ipaddress.ip_address(host)
    except ValueError:
        return lenient_hostname(host) and host != 'localhost'
    return ip.is_global and not ip.is_private


LABEL = re.compile(r'[A-Za-z0-9_-]{1,63}\Z')


def lenient_hostname(host):
    '''Deliberately lenient: never stricter than aiorpcx's validator.'''
    if host.endswith('.'):
        host = host[:-1]
    if not host or len(host) > 253:
        return False
    labels = host.split('.')
    return all(LABEL.match(l) and not l.startswith('-') and not l.endswith('-') for l in labels)


class Env:
    pass


def make_pm(own_state):
    import aiorpcx
    from electrumx.lib.coins import BitcoinSVRegtest
    import electrumx.server.peers as peersmod
    env = Env()
    env.coin = BitcoinSVRegtest
    env.report_services = [aiorpcx.Service.from_string('tcp://my.server.example:50001'),
                           aiorpcx.Service.from_string('ssl://myhiddenservice.onion:50002')]
    env.peer_announce = True
    env.peer_discovery = 'ON'
    env.PD_ON, env.PD_SELF, env.PD_OFF = 'ON', 'SELF', 'OFF'
    env.force_proxy = False
    env.tor_proxy_host = 'localhost'
    env.tor_proxy_port = None
    peersmod.time = FixedTime()
    pm = peersmod.PeerManager(env, None)
    for me in pm.myselves:
        me.last_good = STATE_TIMES[own_state]
        me.last_try = NOW - 5
    return pm, peersmod


def population(case):
    peers = []
    for host, st in zip(A4, case['a']):
        if st != 'absent':
            peers.append(mk_peer(host, st))
    for host, st in zip(B4, case['b']):
        if st != 'absent':
            peers.append(mk_peer(host, st))
    for host, st in zip(C6, case['c']):
        if st != 'absent':
            peers.append(mk_peer(host, st))
    for host, st in zip(PRIVATE, case['p']):
        if st != 'absent':
            peers.append(mk_peer(host, st))
    for (host, ip), st in zip(HOSTS, case['h']):
        if st != 'absent':
            peers.append(mk_peer(host, st, ip_addr=ip))
    for (host, ip), st in zip(ONIONISH, case.get('o', ())):
        if st != 'absent':
            peers.append(mk_peer(host, st, ip_addr=ip))
    for i in range(case['onions']):
        st = 'bad' if i % 11 == 5 else 'stale' if i % 7 == 3 else 'good'
        peers.append(mk_peer(f'onionpeer{i:03d}abcdefghijklmnop.onion', st, ip_addr=None))
    return peers


def shuffle_plans(n):
    if n <= 1:
        return [None]
    if n <= 3:
        return list(itertools.permutations(range(n)))
    return [tuple(range(n)), tuple(reversed(range(n))), tuple(range(1, n)) + (0,),
            tuple(range(n // 2, n)) + tuple(range(n // 2))]


def case_population(case, res):
    pm, peersmod = make_pm(case['own'])
    own_hosts = {m.host for m in pm.myselves}
    peers = population(case)
    by_host = {p.host: p for p in peers}
    state_of = {}
    for p in peers:
        state_of[p.host] = ('bad' if p.bad else 'good' if p.last_good > NOW - STALE else
                            'stale' if p.last_good else 'never')
    # DFS over the outcomes of random.shuffle
    stack = [[]]
    runs = 0
    while stack:
        prefix = stack.pop()
        taken, menus = [], []

        def shuffle(lst, prefix=prefix, taken=taken, menus=menus):
            plans = shuffle_plans(len(lst))
            k = len(taken)
            c = prefix[k] if k < len(prefix) else 0
            menus.append(len(plans))
            taken.append(c)
            plan = plans[c]
            if plan is not None:
                lst[:] = [lst[i] for i in plan]

        class Rnd:
            def __getattr__(self, n):
                import random
                return getattr(random, n)
        rnd = Rnd()
        rnd.shuffle = shuffle
        peersmod.random = rnd
        pm.peers = set(peers)
        try:
            out = via_session(pm, case['tor'])
            err = None
        except Exception as e:      # noqa
            out, err = [], repr(e)
        runs += 1
        res.count('subscribe_calls')
        bad = None
        if err:
            bad = ('raises', dict(error=err))
        else:
            hosts = [t[1] for t in out]
            if len(hosts) != len(set(hosts)):
                bad = ('duplicate-peer', dict(hosts=hosts))
            buckets = {}
            onions = 0
            for ip_or_host, host, details in out:
                if host in own_hosts:
                    if case['own'] != 'good':
                        bad = ('own-identity-not-recently-verified', dict(host=host))
                    continue
                st = state_of.get(host)
                if st != 'good':
                    bad = (f'advertised-{st}-peer', dict(host=host))
                    break
                if not routable(host):
                    bad = ('advertised-non-public-peer', dict(host=host))
                    break
                if host.endswith('.onion'):
                    onions += 1
                else:
                    b = ext_bucket(host, by_host[host].ip_addr)
                    buckets[b] = buckets.get(b, 0) + 1
            if bad is None:
                over = {b: n for b, n in buckets.items() if n > 2}
                if over:
                    bad = ('more-than-two-per-bucket', dict(buckets=over))
                clear = sum(buckets.values()) + sum(1 for t in out if t[1] in own_hosts)
                cap = 50 if case['tor'] else max(10, clear // 4)
                if onions > cap:
                    bad = ('too-many-onion-peers', dict(onions=onions, cap=cap))
            res.maxi('onions_advertised', onions if not err else 0)
            res.maxi('peers_advertised', len(out))
        if bad:
            res.violation(bad[0], dict(case, shuffle=taken), dict(case=case, shuffle=taken, **bad[1]))
        for i in range(len(prefix), len(taken)):
            for alt in range(1, menus[i]):
                stack.append(taken[:i] + [alt])
        if 'shuffle' in case:           # replay of one outcome
            break
        if runs >= 400:
            res.count('shuffle_cap_hits')
            break
    res.count('populations')
    res.distinct('population_sizes', len(peers))
    if case['onions'] == 11 and case['tor']:
        res.sample({'part': 'population', 'case': case, 'shuffle_outcomes': runs}, cap=1)


# ---------------------------------------------------------------------------- part C: histories
TICK = 80 * 60          # three ticks make a verification stale
CROWDED4 = '23.45.{}.1'
OTHER4 = '99.88.{}.1'
CROWDED6 = '2a01:4f8:c0c:{:x}::1'


class Remote:
    '''What the host behind a peer's name does when connected to: scripted per event.'''
    def __init__(self):
        self.addr = None
        self.mode = 'down'


class FakeSession:
    def __init__(self, host, remote, genesis):
        self.host, self.remote, self.genesis = host, remote, genesis
        self.sent_request_timeout = None

    def remote_address(self):
        import aiorpcx
        return aiorpcx.NetAddress(self.remote.addr, 50001)

    async def send_request(self, method, args=()):
        if method == 'server.version':
            return ['ElectrumX 1.16.0', '1.4']
        if method == 'blockchain.headers.subscribe':
            return {'height': 100, 'hex': '00' * 80}
        if method == 'blockchain.block.header':
            return '00' * 80
        if method == 'server.features':
            if self.remote.mode == 'nomethod':
                import aiorpcx
                raise aiorpcx.RPCError(-32601, 'unknown method "server.features"')
            g = self.genesis if self.remote.mode == 'ok' else 'ff' * 32
            return {'hosts': {self.host: {'tcp_port': 50001, 'ssl_port': 50002}},
                    'genesis_hash': g, 'protocol_min': '1.4', 'protocol_max': '1.4.2',
                    'server_version': 'ElectrumX 1.16.0', 'pruning': None}
        if method == 'server.peers.subscribe':
            return []
        if method == 'server.add_peer':
            return True
        raise AssertionError(method)


class FakeDBState:
    height = 100


class FakeDB:
    state = FakeDBState()

    async def raw_header(self, height):
        return bytes(80)


HISTORY_BOUNDS = {'quick': [('quick', 4)], 'thorough': [('thorough', 4), ('quick', 5)]}


def history_events(tier):
    names = ['two.example.com', 'one.example.com'] + ([] if tier == 'quick' else ['bg.example.org'])
    where = ['A', 'B'] + ([] if tier == 'quick' else ['C6'])
    evs = []
    for n in names:
        for w in where:
            evs.append(('verify', n, w))
        evs.append(('verify', n, 'badgen'))
        evs.append(('verify', n, 'down'))
        if n == names[0]:
            evs.append(('verify', n, 'nomethod'))
    evs.append(('verify', '23.45.1.1', 'ok'))
    # somebody (the peer itself through server.add_peer, another peer's list) announces the peer
    # with other ports: no verification, so no change to what may be advertised
    evs.append(('announce', names[0]))
    evs.append(('tick',))
    evs.append(('subscribe', False))
    return evs


class _Flag:
    def set(self):
        pass

    def clear(self):
        pass


def case_history(case, res):
    from vf.vloop import VLoop
    pm, peersmod = make_pm('good')
    clock = peersmod.time
    clock.now = NOW
    pm.db = FakeDB()
    pm.env.services = []
    genesis = pm.env.coin.GENESIS_HASH
    remotes = {}

    class connect_rs:
        def __init__(self, host, port, **kw):
            self.host = str(host)

        async def __aenter__(self):
            r = remotes[self.host]
            if r.mode == 'down':
                raise OSError('connection refused')
            return FakeSession(self.host, r, genesis)

        async def __aexit__(self, *a):
            return False

    peersmod.connect_rs = connect_rs

    class Rnd:
        plan = 0

        def __getattr__(self, n):
            import random
            return getattr(random, n)

        def shuffle(self, lst):
            if self.plan:
                lst.reverse()
    rnd = Rnd()
    peersmod.random = rnd

    # initial population: two recently verified peers in the crowded networks, one elsewhere,
    # one never verified
    init = [('23.45.1.1', '23.45.1.1', 'good'), ('bg.example.org', CROWDED4.format(2), 'good'),
            ('two.example.com', OTHER4.format(3), 'good'), ('one.example.com', None, 'never'),
            ('2a01:4f8:c0c:1::1', '2a01:4f8:c0c:1::1', 'good'),
            ('2a01:4f8:c0c:2::1', '2a01:4f8:c0c:2::1', 'good')]
    slot = {h: i + 10 for i, (h, _, _) in enumerate(init)}
    ref = {}
    peers = {}
    for host, ip, st in init:
        p = mk_peer(host, st, ip_addr=ip)
        peers[host] = p
        remotes[host] = Remote()
        remotes[host].addr = ip
        ref[host] = dict(addr=ip, last_ok=STATE_TIMES[st], failed=False)
    pm.peers = set(peers.values())
    own_hosts = {m.host for m in pm.myselves}
    loop = VLoop()
    loop.enter()
    moved_advertised = 0
    try:
        events = [tuple(e) for e in case['events']] + [('subscribe', False), ('subscribe', True)]
        for n, ev in enumerate(events):
            if ev[0] == 'tick':
                clock.now += TICK
            elif ev[0] == 'announce':
                peer = peers[ev[1]]
                if peer not in pm.peers:
                    continue
                if not hasattr(peer, 'retry_event'):
                    peer.retry_event = _Flag()
                from electrumx.lib.peer import Peer
                other = Peer(ev[1], {'hosts': {ev[1]: {'tcp_port': 51001, 'ssl_port': 51002}}}, 'peer')
                try:
                    loop.run_coro(pm._note_peers([other], check_ports=True))
                except Exception as e:      # noqa
                    res.violation('history:announcement-raises', case,
                                  dict(event=list(ev), error=repr(e)))
                    return
                res.count('announcements')
            elif ev[0] == 'verify':
                host, what = ev[1], ev[2]
                peer = peers[host]
                if peer not in pm.peers:
                    continue                    # forgotten: nothing monitors it any more
                r = remotes[host]
                if what == 'down':
                    r.mode = 'down'
                else:
                    r.mode = 'bad' if what == 'badgen' else 'nomethod' if what == 'nomethod' else 'ok'
                    if what == 'A':
                        r.addr = CROWDED4.format(slot[host])
                    elif what == 'B':
                        r.addr = OTHER4.format(slot[host])
                    elif what == 'C6':
                        r.addr = CROWDED6.format(slot[host])
                    if r.addr is None:
                        r.addr = OTHER4.format(slot[host])
                try:
                    drop = loop.run_coro(pm._should_drop_peer(peer))
                except Exception as e:      # noqa
                    res.violation('history:verification-raises', case,
                                  dict(event=list(ev), error=repr(e)))
                    return
                if drop:
                    pm.peers.discard(peer)      # what _monitor_peer does
                res.count('verifications')
                if r.mode != 'down':
                    ref[host]['addr'] = r.addr
                    # wrong genesis = a verdict (bad peer); an RPC error is a failed attempt like
                    # an unreachable host: no verdict, but no fresh verification either
                    if r.mode != 'nomethod':
                        ref[host]['failed'] = r.mode != 'ok'
                    if r.mode == 'ok':
                        ref[host]['last_ok'] = clock.now
            else:
                for plan in (0, 1):
                    rnd.plan = plan
                    try:
                        out = pm.on_peers_subscribe(ev[1])
                    except Exception as e:      # noqa
                        res.violation('history:subscribe-raises', case,
                                      dict(event_index=n, error=repr(e)))
                        return
                    res.count('subscribe_calls')
                    bad = None
                    buckets = {}
                    for _ip, host, _details in out:
                        if host in own_hosts:
                            continue
                        r_ = ref.get(host)
                        if r_ is None:
                            bad = ('history:advertised-unknown-peer', dict(host=host))
                        elif not r_['last_ok'] > clock.now - STALE:
                            bad = ('history:advertised-peer-not-verified-recently', dict(host=host))
                        elif r_['failed']:
                            bad = ('history:advertised-peer-that-failed-verification', dict(host=host))
                        b = ext_bucket(host, r_['addr'] if r_ else None)
                        buckets[b] = buckets.get(b, 0) + 1
                        if r_ and r_['addr'] != dict((h, i) for h, i, _ in init)[host]:
                            moved_advertised += 1
                    over = {b: k for b, k in buckets.items() if k > 2 and b != 'onion'}
                    if over and not bad:
                        bad = ('history:more-than-two-per-bucket', dict(buckets=over))
                    res.maxi('history_peers_advertised', len(out))
                    if bad:
                        res.violation(bad[0], case, dict(events=[list(e) for e in events[:n + 1]],
                                                         answer=[t[1] for t in out], **bad[1]))
                        return
    finally:
        loop.close()
    res.count('histories')
    res.count('moved_peer_advertised', moved_advertised)
    if moved_advertised and len(case['events']) >= 2:
        res.sample({'part': 'history', 'events': case['events']}, cap=1)


HOST_ALPHABET = [
    'example.com', 'a.b.c.example.org', 'UPPER.Example.COM', 'under_score.example.com',
    'trailingdot.example.com.', 'localhost', 'x', '-bad.example.com', 'bad-.example.com',
    'a..b.com', '.leading.com', 'a' * 63 + '.com', 'a' * 64 + '.com', ('a' * 60 + '.') * 4 + 'com',
    ('a' * 61 + '.') * 4 + 'comm', 'exa mple.com', 'exam/ple.com', 'exampéle.com', '123.456',
    'abcdefghijklmnop.onion', '', '8.8.8.8', '192.168.0.1', '10.0.0.1', '172.16.5.5', '127.0.0.1',
    '0.0.0.0', '224.0.0.1', '169.254.1.1', '100.64.0.1', '255.255.255.255', '1.2.3.4',
    '2a01:4f8::1', '::1', '::', 'fe80::1', 'fc00::1', 'ff02::1', '::ffff:10.0.0.1',
    '::ffff:8.8.8.8', '2001:db8::1', '999.1.1.1', '1.2.3', '08.8.8.8', '[2a01:4f8::1]',
]
PORT_ALPHABET = [None, True, False, 0, 1, 50001, 65535, 65536, -1, 2 ** 64, 10 ** 30, 1.5, 50001.0,
                 float('inf'), '80', ' 80', '80 ', '0', '65535', '65536', '-1', 'abc', '', '1e3',
                 '٣', '0x50', [], [80], {}, {'p': 1}]
MISSING = object()


def judge_peer(p):
    bad = []
    for name in ('tcp_port', 'ssl_port'):
        v = getattr(p, name)
        if v is not None and not (type(v) is int and 1 <= v <= 65535):
            bad.append((f'invalid-{name}', dict(value=repr(v))))
    pub = p.is_public
    if pub and not routable(p.host):
        bad.append(('public-but-not-routable-or-valid', dict(host=p.host)))
    return bad


def case_features(case, res):
    from electrumx.lib.peer import Peer
    kind = case['kind']
    if kind == 'hosts-x-ports':
        host = HOST_ALPHABET[case['host']]
        for tp, sp in itertools.product(range(len(PORT_ALPHABET)), repeat=2):
            ports = {}
            if PORT_ALPHABET[tp] is not MISSING:
                ports['tcp_port'] = PORT_ALPHABET[tp]
            ports['ssl_port'] = PORT_ALPHABET[sp]
            feats = {'hosts': {host: ports}, 'protocol_min': '1.4', 'protocol_max': '1.4.2',
                     'genesis_hash': 'ab' * 32, 'server_version': 'X 1.0', 'pruning': None}
            _one_features(Peer, feats, res, dict(kind=kind, host=case['host'], tp=tp, sp=sp))
    else:
        shapes = [None, 1, 'str', [], {}, {'hosts': None}, {'hosts': []}, {'hosts': 'x'},
                  {'hosts': {}}, {'hosts': {'example.com': None}}, {'hosts': {'example.com': 'x'}},
                  {'hosts': {'example.com': []}}, {'hosts': {'example.com': {'tcp_port': {'a': 1}}}},
                  {'hosts': {'example.com': {}, '8.8.8.8': {'tcp_port': '50001'}},
                   'pruning': True, 'protocol_min': [1], 'protocol_max': {'a': 1},
                   'server_version': 5, 'genesis_hash': None},
                  {'hosts': {'example.com': {'tcp_port': 1}}, 'pruning': '-5', 'protocol_max': '1.' * 300},
                  {'hosts': {'example.com': {'tcp_port': 1}}, 'tcp_port': 70000, 'ssl_port': True}]
        for n, feats in enumerate(shapes):
            _one_features(Peer, feats, res, dict(kind=kind, shape=n))


def _one_features(Peer, feats, res, ident):
    res.count('feature_dicts')
    try:
        peers = Peer.peers_from_features(feats, 'src')
        probs = []
        for p in peers:
            probs += judge_peer(p)
            p.real_name()
            p.to_tuple()
            p.serialize()
    except Exception as e:      # noqa
        probs = [('raises', dict(error=repr(e)))]
        peers = []
    res.count('peers_built', len(peers))
    for what, detail in probs[:1]:
        res.violation(f'features:{what}', ident, dict(features=repr(feats)[:300], **detail))


def run_case(case, res):
    if 'events' in case:
        case_history(case, res)
    elif 'kind' in case:
        if 'tp' in case:            # replay of a single dictionary
            from electrumx.lib.peer import Peer
            host = HOST_ALPHABET[case['host']]
            feats = {'hosts': {host: {'tcp_port': PORT_ALPHABET[case['tp']],
                                      'ssl_port': PORT_ALPHABET[case['sp']]}},
                     'protocol_min': '1.4', 'protocol_max': '1.4.2'}
            _one_features(Peer, feats, res, case)
        else:
            case_features(case, res)
    else:
        case_population(case, res)


def cases_for(tier):
    q = tier == 'quick'
    st3 = ['good', 'stale', 'bad']
    cases = []
    a_opts = [a for a in itertools.product(st3 + ['never'], st3, st3 + ['absent'])]
    if q:
        a_opts = [a for a in a_opts if a.count('good') >= 2 or a[0] == 'never']
    for a in a_opts:
        for b in (('good',), ('stale',)):
            for c in ([('good', 'good', 'good'), ('good', 'bad', 'good'), ('stale', 'good', 'never')]
                      if q else itertools.product(('good', 'bad'), repeat=3)):
                for h in ([('good', 'good', 'good'), ('good', 'never', 'absent'),
                           ('bad', 'good', 'good')] if q
                          else [h_ for h_ in itertools.product(('good', 'never', 'absent'), repeat=3)
                                if h_.count('absent') <= 1]):
                    for onions in ((0, 11, 60) if q else (0, 9, 11, 51, 60)):
                        for own in ('good', 'stale'):
                            for tor in (False, True):
                                cases.append(dict(a=list(a), b=list(b), c=list(c),
                                                  p=['good', 'good'], h=list(h), onions=onions,
                                                  own=own, tor=tor))
                                if own == 'good' and a.count('good') >= 1:
                                    cases.append(dict(a=list(a), b=list(b), c=list(c),
                                                      p=['good', 'good'], h=list(h), onions=onions,
                                                      own=own, tor=tor, o=['good', 'good']))
    seen = set()
    for alphabet, depth in HISTORY_BOUNDS[tier]:
        evs = history_events(alphabet)
        for d in range(0, depth + 1):
            for seq in itertools.product(evs, repeat=d):
                # a history ending in a subscribe is a prefix of another one (the closing
                # subscribes are always appended)
                if (seq and seq[-1][0] == 'subscribe') or seq in seen:
                    continue
                seen.add(seq)
                cases.append(dict(events=[list(e) for e in seq]))
    for i in range(len(HOST_ALPHABET)):
        cases.append(dict(kind='hosts-x-ports', host=i))
    cases.append(dict(kind='shapes'))
    return cases


def run(tier, seed, started):
    cases = cases_for(tier)
    res = farm(run_case, cases, seed=seed)
    c = res.counters
    if c.get('populations', 0) < 1000 or c.get('peers_built', 0) < 10000 or \
            c.get('max:onions_advertised', 0) < 45 or not c.get('moved_peer_advertised') or \
            c.get('max:history_peers_advertised', 0) < 5:
        common.vacuous(PROP, res, f'vacuous C19 run: {c}')
    coverage = {
        'evaluations': c['subscribe_calls'] + c['feature_dicts'],
        'histories': c['histories'], 'verifications_through_real_code': c['verifications'],
        'history_bounds(alphabet_size,depth)': [(len(history_events(a)), d)
                                                 for a, d in HISTORY_BOUNDS[tier]],
        'distinct_nontrivial': c['populations'] + c['peers_built'],
        'rule': ('A: product of per-slot peer states x onion count x own-identity state x requester, '
                 'each with every permutation outcome of random.shuffle for buckets of <= 3 peers and '
                 '4 outcomes for larger lists (at most 400 outcome combinations per population, cap '
                 'counted); B: every host of a 45-host alphabet x every pair of port values of a '
                 '30-value JSON alphabet, plus container shapes; C: every sequence of peer-life events '
                 'up to the stated depth over the stated alphabet, two shuffle outcomes per '
                 'subscribe'),
        'populations': c['populations'], 'subscribe_calls': c['subscribe_calls'],
        'shuffle_cap_hits': c.get('shuffle_cap_hits', 0),
        'feature_dicts': c['feature_dicts'], 'peers_built': c['peers_built'],
        'max_onions_advertised': c.get('max:onions_advertised'),
        'exhaustive': c.get('shuffle_cap_hits', 0) == 0,
    }
    assumptions = ['aiorpcx.util.is_valid_hostname is trusted; the independent hostname check is '
                   'deliberately lenient', 'clock fixed (time.time replaced in electrumx.server.peers)']
    return finish(PROP, tier, seed, 'exploration', res, coverage, assumptions, started)


def replay(path):
    return common.standard_replay(PROP, path, run_case)
