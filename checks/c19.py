'''C19 - only verified, public, recently good peers are advertised, spread over networks.

Part A (exhaustive inputs): peer populations as a product over slots (three IPv4 peers in one
/16, one in another, three IPv6 in one /56, a private address, host names with and without a
resolved address, N onion peers crossing both caps, the server's own identities) x per-peer
state (good / stale / never / bad / absent) x tor / clearnet requester x outcomes of
random.shuffle (all permutations of small buckets, several of large ones), through the real
PeerManager.on_peers_subscribe.
Part B (exhaustive inputs): feature dictionaries for Peer.peers_from_features over hosts x port
values from a JSON alphabet x container shapes.
'''
import ipaddress
import itertools
import re

from vf import common
from vf.common import farm, finish

PROP = 'C19'
NOW = 1_800_000_000.0
STALE = 3 * 3600
A4 = ['23.45.3.4', '23.45.9.9', '23.45.200.1']
B4 = ['8.8.8.8']
C6 = ['2a01:4f8:c0c:1::1', '2a01:4f8:c0c:2::9', '2a01:4f8:c0c:ff::3']
PRIVATE = ['192.168.1.5', '10.1.2.3']
HOSTS = [('foo.example.com', '23.45.77.7'), ('bar.example.org', None), ('baz.example.net', '9.9.9.9')]
STATE_TIMES = {'good': NOW - 10, 'stale': NOW - STALE - 100, 'never': 0, 'bad': NOW - 10}


class FixedTime:
    def __getattr__(self, n):
        import time
        return getattr(time, n)

    def time(self):
        return NOW


def mk_peer(host, state, ip_addr=None):
    from electrumx.lib.peer import Peer
    p = Peer(host, {'hosts': {host: {'tcp_port': 50001, 'ssl_port': 50002}}}, 'test',
             ip_addr=ip_addr if ip_addr is not None else (None if _is_name(host) else host))
    p.last_good = STATE_TIMES[state]
    if state == 'bad':
        p.mark_bad()
    return p


def _is_name(host):
    try:
        ipaddress.ip_address(host)
        return False
    except ValueError:
        return True


def ext_bucket(peer_host, ip_addr):
    if peer_host.endswith('.onion'):
        return 'onion'
    if not ip_addr:
        return ''
    ip = ipaddress.ip_address(ip_addr)
    if ip.version == 4:
        return str(ipaddress.ip_network(f'{ip}/16', strict=False))
    return str(ipaddress.ip_network(f'{ip}/56', strict=False))


def routable(host, ip_addr_unused=None):
    try:
        ip = ipaddress.ip_address(host)
    except ValueError:
        return lenient_hostname(host) and host != 'localhost'
    return ip.is_global and not ip.is_private


LABEL = re.compile(r'[A-Za-z0-9_-]{1,63}\Z')


def lenient_hostname(host):
    '''Deliberately lenient: never stricter than aiorpcx's validator.'''
    if host.endswith('.'):
        host = host[:-1]
    if not host or len(host) > 253:
        return False
    labels = host.split('.')
    return all(LABEL.match(l) and not l.startswith('-') and not l.endswith('-') for l in labels)


class Env:
    pass


def make_pm(own_state):
    import aiorpcx
    from electrumx.lib.coins import BitcoinSVRegtest
    import electrumx.server.peers as peersmod
    env = Env()
    env.coin = BitcoinSVRegtest
    env.report_services = [aiorpcx.Service.from_string('tcp://my.server.example:50001'),
                           aiorpcx.Service.from_string('ssl://myhiddenservice.onion:50002')]
    env.peer_announce = True
    env.peer_discovery = 'ON'
    env.PD_ON, env.PD_SELF, env.PD_OFF = 'ON', 'SELF', 'OFF'
    env.force_proxy = False
    env.tor_proxy_host = 'localhost'
    env.tor_proxy_port = None
    peersmod.time = FixedTime()
    pm = peersmod.PeerManager(env, None)
    for me in pm.myselves:
        me.last_good = STATE_TIMES[own_state]
    return pm, peersmod


def population(case):
    peers = []
    for host, st in zip(A4, case['a']):
        if st != 'absent':
            peers.append(mk_peer(host, st))
    for host, st in zip(B4, case['b']):
        if st != 'absent':
            peers.append(mk_peer(host, st))
    for host, st in zip(C6, case['c']):
        if st != 'absent':
            peers.append(mk_peer(host, st))
    for host, st in zip(PRIVATE, case['p']):
        if st != 'absent':
            peers.append(mk_peer(host, st))
    for (host, ip), st in zip(HOSTS, case['h']):
        if st != 'absent':
            peers.append(mk_peer(host, st, ip_addr=ip))
    for i in range(case['onions']):
        st = 'bad' if i % 11 == 5 else 'stale' if i % 7 == 3 else 'good'
        peers.append(mk_peer(f'onionpeer{i:03d}abcdefghijklmnop.onion', st, ip_addr=None))
    return peers


def shuffle_plans(n):
    if n <= 1:
        return [None]
    if n <= 3:
        return list(itertools.permutations(range(n)))
    return [tuple(range(n)), tuple(reversed(range(n))), tuple(range(1, n)) + (0,),
            tuple(range(n // 2, n)) + tuple(range(n // 2))]


def case_population(case, res):
    pm, peersmod = make_pm(case['own'])
    own_hosts = {m.host for m in pm.myselves}
    peers = population(case)
    by_host = {p.host: p for p in peers}
    state_of = {}
    for p in peers:
        state_of[p.host] = ('bad' if p.bad else 'good' if p.last_good > NOW - STALE else
                            'stale' if p.last_good else 'never')
    # DFS over the outcomes of random.shuffle
    stack = [[]]
    runs = 0
    while stack:
        prefix = stack.pop()
        taken, menus = [], []

        def shuffle(lst, prefix=prefix, taken=taken, menus=menus):
            plans = shuffle_plans(len(lst))
            k = len(taken)
            c = prefix[k] if k < len(prefix) else 0
            menus.append(len(plans))
            taken.append(c)
            plan = plans[c]
            if plan is not None:
                lst[:] = [lst[i] for i in plan]

        class Rnd:
            def __getattr__(self, n):
                import random
                return getattr(random, n)
        rnd = Rnd()
        rnd.shuffle = shuffle
        peersmod.random = rnd
        pm.peers = set(peers)
        try:
            out = pm.on_peers_subscribe(case['tor'])
            err = None
        except Exception as e:      # noqa
            out, err = [], repr(e)
        runs += 1
        res.count('subscribe_calls')
        bad = None
        if err:
            bad = ('raises', dict(error=err))
        else:
            hosts = [t[1] for t in out]
            if len(hosts) != len(set(hosts)):
                bad = ('duplicate-peer', dict(hosts=hosts))
            buckets = {}
            onions = 0
            for ip_or_host, host, details in out:
                if host in own_hosts:
                    if case['own'] != 'good':
                        bad = ('own-identity-not-recently-verified', dict(host=host))
                    continue
                st = state_of.get(host)
                if st != 'good':
                    bad = (f'advertised-{st}-peer', dict(host=host))
                    break
                if not routable(host):
                    bad = ('advertised-non-public-peer', dict(host=host))
                    break
                if host.endswith('.onion'):
                    onions += 1
                else:
                    b = ext_bucket(host, by_host[host].ip_addr)
                    buckets[b] = buckets.get(b, 0) + 1
            if bad is None:
                over = {b: n for b, n in buckets.items() if n > 2}
                if over:
                    bad = ('more-than-two-per-bucket', dict(buckets=over))
                clear = sum(buckets.values()) + sum(1 for t in out if t[1] in own_hosts)
                cap = 50 if case['tor'] else max(10, clear // 4)
                if onions > cap:
                    bad = ('too-many-onion-peers', dict(onions=onions, cap=cap))
            res.maxi('onions_advertised', onions if not err else 0)
            res.maxi('peers_advertised', len(out))
        if bad:
            res.violation(bad[0], dict(case, shuffle=taken), dict(case=case, shuffle=taken, **bad[1]))
        for i in range(len(prefix), len(taken)):
            for alt in range(1, menus[i]):
                stack.append(taken[:i] + [alt])
        if 'shuffle' in case:           # replay of one outcome
            break
        if runs >= 60:
            res.count('shuffle_cap_hits')
            break
    res.count('populations')
    res.distinct('population_sizes', len(peers))
    if case['onions'] == 11 and case['tor']:
        res.sample({'part': 'population', 'case': case, 'shuffle_outcomes': runs}, cap=1)


HOST_ALPHABET = [
    'example.com', 'a.b.c.example.org', 'UPPER.Example.COM', 'under_score.example.com',
    'trailingdot.example.com.', 'localhost', 'x', '-bad.example.com', 'bad-.example.com',
    'a..b.com', '.leading.com', 'a' * 63 + '.com', 'a' * 64 + '.com', ('a' * 60 + '.') * 4 + 'com',
    ('a' * 61 + '.') * 4 + 'comm', 'exa mple.com', 'exam/ple.com', 'exampéle.com', '123.456',
    'abcdefghijklmnop.onion', '', '8.8.8.8', '192.168.0.1', '10.0.0.1', '172.16.5.5', '127.0.0.1',
    '0.0.0.0', '224.0.0.1', '169.254.1.1', '100.64.0.1', '255.255.255.255', '1.2.3.4',
    '2a01:4f8::1', '::1', '::', 'fe80::1', 'fc00::1', 'ff02::1', '::ffff:10.0.0.1',
    '::ffff:8.8.8.8', '2001:db8::1', '999.1.1.1', '1.2.3', '08.8.8.8', '[2a01:4f8::1]',
]
PORT_ALPHABET = [None, True, False, 0, 1, 50001, 65535, 65536, -1, 2 ** 64, 10 ** 30, 1.5, 50001.0,
                 float('inf'), '80', ' 80', '80 ', '0', '65535', '65536', '-1', 'abc', '', '1e3',
                 '٣', '0x50', [], [80], {}, {'p': 1}]
MISSING = object()


def judge_peer(p):
    bad = []
    for name in ('tcp_port', 'ssl_port'):
        v = getattr(p, name)
        if v is not None and not (type(v) is int and 1 <= v <= 65535):
            bad.append((f'invalid-{name}', dict(value=repr(v))))
    pub = p.is_public
    if pub and not routable(p.host):
        bad.append(('public-but-not-routable-or-valid', dict(host=p.host)))
    return bad


def case_features(case, res):
    from electrumx.lib.peer import Peer
    kind = case['kind']
    if kind == 'hosts-x-ports':
        host = HOST_ALPHABET[case['host']]
        for tp, sp in itertools.product(range(len(PORT_ALPHABET)), repeat=2):
            ports = {}
            if PORT_ALPHABET[tp] is not MISSING:
                ports['tcp_port'] = PORT_ALPHABET[tp]
            ports['ssl_port'] = PORT_ALPHABET[sp]
            feats = {'hosts': {host: ports}, 'protocol_min': '1.4', 'protocol_max': '1.4.2',
                     'genesis_hash': 'ab' * 32, 'server_version': 'X 1.0', 'pruning': None}
            _one_features(Peer, feats, res, dict(kind=kind, host=case['host'], tp=tp, sp=sp))
    else:
        shapes = [None, 1, 'str', [], {}, {'hosts': None}, {'hosts': []}, {'hosts': 'x'},
                  {'hosts': {}}, {'hosts': {'example.com': None}}, {'hosts': {'example.com': 'x'}},
                  {'hosts': {'example.com': []}}, {'hosts': {'example.com': {'tcp_port': {'a': 1}}}},
                  {'hosts': {'example.com': {}, '8.8.8.8': {'tcp_port': '50001'}},
                   'pruning': True, 'protocol_min': [1], 'protocol_max': {'a': 1},
                   'server_version': 5, 'genesis_hash': None},
                  {'hosts': {'example.com': {'tcp_port': 1}}, 'pruning': '-5', 'protocol_max': '1.' * 300},
                  {'hosts': {'example.com': {'tcp_port': 1}}, 'tcp_port': 70000, 'ssl_port': True}]
        for n, feats in enumerate(shapes):
            _one_features(Peer, feats, res, dict(kind=kind, shape=n))


def _one_features(Peer, feats, res, ident):
    res.count('feature_dicts')
    try:
        peers = Peer.peers_from_features(feats, 'src')
        probs = []
        for p in peers:
            probs += judge_peer(p)
            p.real_name()
            p.to_tuple()
            p.serialize()
    except Exception as e:      # noqa
        probs = [('raises', dict(error=repr(e)))]
        peers = []
    res.count('peers_built', len(peers))
    for what, detail in probs[:1]:
        res.violation(f'features:{what}', ident, dict(features=repr(feats)[:300], **detail))


def run_case(case, res):
    if 'kind' in case:
        if 'tp' in case:            # replay of a single dictionary
            from electrumx.lib.peer import Peer
            host = HOST_ALPHABET[case['host']]
            feats = {'hosts': {host: {'tcp_port': PORT_ALPHABET[case['tp']],
                                      'ssl_port': PORT_ALPHABET[case['sp']]}},
                     'protocol_min': '1.4', 'protocol_max': '1.4.2'}
            _one_features(Peer, feats, res, case)
        else:
            case_features(case, res)
    else:
        case_population(case, res)


def cases_for(tier):
    q = tier == 'quick'
    st3 = ['good', 'stale', 'bad']
    cases = []
    a_opts = [a for a in itertools.product(st3 + ['never'], st3, st3 + ['absent'])]
    if q:
        a_opts = [a for a in a_opts if a.count('good') >= 2 or a[0] == 'never']
    for a in a_opts:
        for b in (('good',), ('stale',)):
            for c in ([('good', 'good', 'good'), ('good', 'bad', 'good'), ('stale', 'good', 'never')]
                      if q else itertools.product(('good', 'bad'), repeat=3)):
                for h in ([('good', 'good', 'good'), ('good', 'never', 'absent'),
                           ('bad', 'good', 'good')] if q
                          else [h_ for h_ in itertools.product(('good', 'never', 'absent'), repeat=3)
                                if h_.count('absent') <= 1]):
                    for onions in ((0, 11, 60) if q else (0, 9, 11, 51, 60)):
                        for own in ('good', 'stale'):
                            for tor in (False, True):
                                cases.append(dict(a=list(a), b=list(b), c=list(c),
                                                  p=['good', 'good'], h=list(h), onions=onions,
                                                  own=own, tor=tor))
    for i in range(len(HOST_ALPHABET)):
        cases.append(dict(kind='hosts-x-ports', host=i))
    cases.append(dict(kind='shapes'))
    return cases


def run(tier, seed, started):
    cases = cases_for(tier)
    res = farm(run_case, cases, seed=seed)
    c = res.counters
    if c.get('populations', 0) < 1000 or c.get('peers_built', 0) < 10000 or \
            c.get('max:onions_advertised', 0) < 45:
        raise common.Broken(f'vacuous C19 run: {c}')
    coverage = {
        'evaluations': c['subscribe_calls'] + c['feature_dicts'],
        'distinct_nontrivial': c['populations'] + c['peers_built'],
        'rule': ('A: product of per-slot peer states x onion count x own-identity state x requester, '
                 'each with every permutation outcome of random.shuffle for buckets of <= 3 peers and '
                 '4 outcomes for larger lists (at most 60 outcome combinations per population, cap '
                 'counted); B: every host of a 45-host alphabet x every pair of port values of a '
                 '30-value JSON alphabet, plus container shapes'),
        'populations': c['populations'], 'subscribe_calls': c['subscribe_calls'],
        'shuffle_cap_hits': c.get('shuffle_cap_hits', 0),
        'feature_dicts': c['feature_dicts'], 'peers_built': c['peers_built'],
        'max_onions_advertised': c.get('max:onions_advertised'),
        'exhaustive': c.get('shuffle_cap_hits', 0) == 0,
    }
    assumptions = ['aiorpcx.util.is_valid_hostname is trusted; the independent hostname check is '
                   'deliberately lenient', 'clock fixed (time.time replaced in electrumx.server.peers)']
    return finish(PROP, tier, seed, 'exploration', res, coverage, assumptions, started)


def replay(path):
    return common.standard_replay(PROP, path, run_case)
