'''C16 - malformed client requests are refused cleanly and change nothing.

Exhaustive input enumeration over the wire: every Electrum protocol method x argument tuples
from a JSON value alphabet (null, booleans, boundary / huge / negative numbers, non-finite
floats, numeric strings, valid / malformed hex of every wrong length, literal option strings,
containers), positional and by name, too few and too many, sent as JSON bytes through aiorpcx's
RSTransport into a real ElectrumX session on a populated index (incl. a 253-tx block so the
merkle-cache path runs) with a second, subscribed client connected; the handshake requests
also against a server configured with DROP_CLIENT; every method also on sessions that never
sent server.version and on sessions that negotiated protocol 1.4.
Oracle: every request gets a reply that is a result or an error whose code is not INTERNAL_ERROR;
a refused request leaves the session's subscriptions untouched and may add to the server caches
only entries that equal a fresh read; after all the traffic the other client is told exactly
what it is told in a run without it (next block, byte-identical), and probe queries agree.
'''
import itertools
import json

from vf import chain, common, reorgrun, system
from vf.common import farm, finish

PROP = 'C16'
BASE = reorgrun.PREFIX + ['big252', 'sweep252', 'old']
NEXT = BASE + ['self']
INTERNAL_ERROR = -32603

METHODS = {
    'blockchain.block.header': ('height', 'cp_height'),
    'blockchain.block.headers': ('start_height', 'count', 'cp_height'),
    'blockchain.estimatefee': ('_number',),
    'blockchain.headers.subscribe': (),
    'blockchain.relayfee': (),
    'blockchain.scripthash.get_balance': ('scripthash',),
    'blockchain.scripthash.get_history': ('scripthash',),
    'blockchain.scripthash.get_mempool': ('scripthash',),
    'blockchain.scripthash.listunspent': ('scripthash',),
    'blockchain.scripthash.subscribe': ('scripthash',),
    'blockchain.scripthash.unsubscribe': ('scripthash',),
    'blockchain.transaction.broadcast': ('raw_tx',),
    'blockchain.transaction.get': ('tx_hash', 'verbose'),
    'blockchain.transaction.get_merkle': ('tx_hash', 'height'),
    'blockchain.transaction.get_tsc_merkle': ('tx_hash', 'height', 'txid_or_tx', 'target_type'),
    'blockchain.transaction.id_from_pos': ('height', 'tx_pos', 'merkle'),
    'mempool.get_fee_histogram': (),
    'server.add_peer': ('features',),
    'server.banner': (),
    'server.donation_address': (),
    'server.features': (),
    'server.peers.subscribe': (),
    'server.ping': (),
    'server.version': ('client_name', 'protocol_version'),
}


def alphabet():
    sim = reorgrun.sim_for(BASE)
    tip = sim.height
    sh = chain.scripthash_hex(chain.SCRIPTS['A'])
    sh_none = chain.scripthash_hex(b'\x51\x52\x53')
    tx5 = sim.blocks[5].txs[7].txid[::-1].hex()
    tx2 = sim.blocks[2].txs[1].txid[::-1].hex()
    inf = float('inf')
    full = [None, True, False, 0, 1, -1, 2, tip - 1, tip, tip + 1, 5, 2016, 2017, 2 ** 31, 2 ** 63,
            2 ** 64, 10 ** 30, 10 ** 400, -(10 ** 400), 0.5, -0.5, 5.0, 1e308, inf, -inf, float('nan'),
            '', '0', '5', '-1', ' 5', '٣', '1e3', sh, sh_none, sh.upper(), sh[:-1], sh + 'a',
            'z' * 64, sh[:-2] + '  ', ' ' * 64, '73' + ' ' * 62, sh[:32] + '  ' + sh[32:],
            'badclient 1.0', tx5[:-2] + '\t\n', tx5, tx2, '00' * 32, 'tx', 'txid', 'block_header', 'merkle_root', 'block_hash',
            'x' * 10000, [], [1], [[]], {}, {'a': {'b': [1]}}, {'hosts': {'example.com': {'tcp_port': True}}},
            {'hosts': {'a..b': {'tcp_port': 50001}}}, {'hosts': {'a' * 64 + '.com': {'ssl_port': 50002}}},
            {'hosts': {'exampéle.com': {'tcp_port': 50001}}, 'protocol_min': '1.4', 'protocol_max': '1.4.2'},
            # version strings whose parts str.isdigit() accepts and int() refuses, or that are
            # longer than int() converts
            '1.4²', '1.' + '4' * 4301, ['1.4', '①.4'],
            {'hosts': {'example.com': {'tcp_port': 50001}}, 'protocol_min': '1.4', 'protocol_max': '1.4²'}]
    small = [None, True, 0, 1, -1, tip, tip + 1, 5, 2017, 2 ** 64, 10 ** 400, 0.5, inf, float('nan'),
             '', '5', sh, sh_none, sh[:-1], sh[:-2] + '  ', tx5, tx2, 'tx', 'merkle_root', [], {}, [1], 'x' * 10000,
             -(10 ** 400), 252, 253]
    tiny = [None, True, 0, 5, tip + 1, 10 ** 400, inf, 0.5, '5', sh, tx5, tx2, 'tx', 'block_header',
            []]
    return full, small, tiny


CONFIGS = {None: {}, 'drop': {'DROP_CLIENT': 'badclient.*'}, 'peers-on': {'PEER_DISCOVERY': 'on'}}
HEX64 = __import__('re').compile(r'[0-9a-fA-F]{64}\Z')


def well_formed_hash(v):
    '''Independent (lenient) notion of a 32-byte hash argument: 64 hex digits, ASCII white space
    ignored (Python's bytes.fromhex skips it, which is harmless).'''
    return isinstance(v, str) and bool(HEX64.match(''.join(v.split())))


INT_FIELDS = ('count', 'max', 'block_height', 'pos', 'height', 'tx_pos', 'value', 'index',
              'confirmed', 'unconfirmed', 'fee')


def ill_typed(result, path=''):
    '''A protocol integer must be a JSON number, not a boolean (True == 1 in Python, not in
    JSON).  Returns the path of the first offending field.'''
    if isinstance(result, dict):
        for k, v in result.items():
            if k in INT_FIELDS and (isinstance(v, bool) or not isinstance(v, int)):
                return f'{path}{k}={v!r}'
            found = ill_typed(v, f'{path}{k}.')
            if found:
                return found
    elif isinstance(result, list):
        for n, v in enumerate(result[:50]):
            found = ill_typed(v, f'{path}{n}.')
            if found:
                return found
    return None


def boot(config=None):
    s = system.System(reorg_limit=5, max_send=None, extra_env=dict(CONFIGS[config]))
    s.boot(reorgrun.sim_for(BASE).blocks)
    other = s.connect(name='o')
    other.call('server.version', ['other', '1.4.2'])
    other.call('blockchain.headers.subscribe')
    for k in ('A', 'B', 'D'):
        other.call('blockchain.scripthash.subscribe', [chain.scripthash_hex(chain.SCRIPTS[k])])
    return s, other


MISSING = object()
PROBES = [('blockchain.scripthash.get_history', 'A'), ('blockchain.scripthash.get_balance', 'B'),
          ('blockchain.scripthash.listunspent', 'D')]


def finish_run(s, other):
    '''Probe queries, then the next block; returns what the other client got, canonically.'''
    out = []
    for m, k in PROBES:
        out.append(other.call(m, [chain.scripthash_hex(chain.SCRIPTS[k])]).get('result'))
    out.append(other.call('blockchain.transaction.id_from_pos', [5, 9, True]).get('result'))
    out.append(other.call('blockchain.block.header', [3, 6]).get('result'))
    n0 = len(other.messages)
    s.daemon.set_chain(reorgrun.sim_for(NEXT).blocks)
    s.settle()
    out.append([json.dumps(m, sort_keys=True) for m in other.messages[n0:]])
    return out


_BASELINE = {}


def baseline(config=None):
    if config not in _BASELINE:
        s, other = boot(config)
        try:
            _BASELINE[config] = finish_run(s, other)
        finally:
            s.close()
    return _BASELINE[config]


def snapshot(session, sm):
    return (dict(session.hashX_subs), dict(session.mempool_statuses), session.subscribe_headers,
            set(sm._history_cache.keys()), set(sm._tx_hashes_cache.keys()))


def cache_additions_ok(s, sm, before):
    '''New cache entries after a refused request must equal a fresh read.'''
    for hx in set(sm._history_cache.keys()) - before[3]:
        val = sm._history_cache[hx]
        fresh = s.loop.run_coro(s.db.limited_history(hx, limit=None), fire_timers=False)
        if isinstance(val, Exception) or list(val) != list(fresh):
            return f'history cache gained a wrong entry for {hx.hex()}'
    for h in set(sm._tx_hashes_cache.keys()) - before[4]:
        if not isinstance(h, int) or list(sm._tx_hashes_cache[h]) != list(s.db.fs_tx_hashes_at_blockheight(h)):
            return f'tx hashes cache gained a wrong entry for {h!r}'
    return None


RAW_SHAPES = {
    # JSON texts that Python's parser refuses with something other than JSONDecodeError
    'integer-literal-of-4301-digits': lambda: b'{"jsonrpc":"2.0","method":"blockchain.block.header","params":['
    + b'9' * 4301 + b'],"id":7}',
    'integer-literal-of-4300-digits': lambda: b'{"jsonrpc":"2.0","method":"blockchain.block.header","params":['
    + b'9' * 4300 + b'],"id":7}',
    'params-nested-100000-deep': lambda: b'{"jsonrpc":"2.0","method":"server.ping","params":'
    + b'[' * 100000 + b']' * 100000 + b',"id":7}',
    'params-nested-500-deep': lambda: b'{"jsonrpc":"2.0","method":"server.ping","params":'
    + b'[' * 500 + b']' * 500 + b',"id":7}',
}


def case_raw(case, res):
    '''Request texts the JSON layer itself chokes on: the client must get an error reply and
    the session must go on answering.'''
    s, other = boot()
    try:
        c = s.connect(name='m')
        c.call('server.version', ['mal', '1.4.2'])
        n0 = len(c.messages)
        c.send_raw(RAW_SHAPES[case['raw']]() + b'\n')
        s.run_idle()
        res.count('requests')
        res.count('raw_texts')
        replies = [m for m in c.messages[n0:] if 'method' not in m]
        bad = None
        if not replies:
            bad = 'no-reply'
        elif 'error' in replies[0] and isinstance(replies[0]['error'], dict) and \
                replies[0]['error'].get('code') == INTERNAL_ERROR:
            bad = 'internal-error'
        n1 = len(c.messages)
        c.request('server.ping', [])
        s.run_idle()
        if not bad and not any('result' in m for m in c.messages[n1:]):
            bad = 'session-dead-afterwards'
        if bad:
            res.violation(f'{bad}:{case["raw"]}', dict(case), dict(shape=case['raw']))
        if s.check_tasks():
            res.violation(f'server-task-died:{case["raw"]}', dict(case), dict(tasks=s.check_tasks()))
    finally:
        s.close()


def run_case(case, res):
    if 'raw' in case:
        return case_raw(case, res)
    method = case['method']
    full, small, tiny = alphabet()
    alpha = {'full': full, 'small': small, 'tiny': tiny}[case['alpha']]
    arity = case['arity']
    names = METHODS[method]
    if 'params' in case:                    # replay of one request
        plist = [json.loads(case['params'], parse_constant=float)]
    else:
        if case.get('by_name'):
            plist = [dict(zip(names, combo)) for combo in itertools.product(alpha, repeat=arity)]
            plist += [{'bogus': 1}, dict(zip(names, alpha[:len(names)]), bogus=2)]
        else:
            combos = itertools.product(alpha, repeat=arity)
            if 'first' in case:             # split a big product by its first element
                combos = ((alpha[case['first']],) + c for c in itertools.product(alpha, repeat=arity - 1))
            plist = [list(c) for c in combos]
    config = case.get('config')
    s, other = boot(config)
    sm = s.session_mgr
    client = None
    n_other0 = len(other.messages)
    try:
        for params in plist:
            if client is None or client.transport.closing:
                client = s.connect(name='m')
                if method != 'server.version' and case.get('handshake', '1.4.2'):
                    client.call('server.version', ['mal', case.get('handshake', '1.4.2')])
            before = snapshot(client.session, sm)
            text = json.dumps({'jsonrpc': '2.0', 'method': method, 'params': params, 'id': 7})
            n0 = len(client.messages)
            tokens0 = client.nonstandard_tokens
            client.send_raw(text.encode() + b'\n')
            s.run_idle()
            res.count('requests')
            replies = [m for m in client.messages[n0:] if m.get('id') == 7 and 'method' not in m]
            bad = None
            if client.nonstandard_tokens != tokens0:
                # the reply is not JSON: it carries a NaN / Infinity token
                bad = ('reply-is-not-json', dict(reply=str(replies[:1])[:300]))
            elif len(replies) != 1:
                bad = ('no-reply' if not replies else 'several-replies', {})
            else:
                r = replies[0]
                if 'error' in r:
                    res.count('refused')
                    code = r['error'].get('code') if isinstance(r['error'], dict) else None
                    if code == INTERNAL_ERROR:
                        bad = ('internal-error', dict(message=str(r['error'].get('message'))[:200]))
                    else:
                        after = snapshot(client.session, sm)
                        if after[:3] != before[:3]:
                            bad = ('refused-request-changed-subscriptions', {})
                        else:
                            why = cache_additions_ok(s, sm, before)
                            if why:
                                bad = ('refused-request-corrupted-cache', dict(why=why))
                elif 'result' in r:
                    res.count('answered')
                    ill = ill_typed(r['result'])
                    if ill:
                        bad = ('ill-typed-result', dict(field=ill))
                    # a script hash that is not one cannot have a well-formed answer
                    if names[:1] == ('scripthash',):
                        arg = params.get('scripthash', MISSING) if isinstance(params, dict) else \
                            (params[0] if params else MISSING)
                        if arg is not MISSING and not well_formed_hash(arg):
                            bad = ('malformed-script-hash-accepted', dict(
                                subscriptions_changed=snapshot(client.session, sm)[:3] != before[:3]))
                else:
                    bad = ('malformed-reply', dict(reply=str(r)[:200]))
            if len(other.messages) != n_other0:
                bad = bad or ('other-client-received-something', {})
                n_other0 = len(other.messages)
            if bad:
                shape = [type(p).__name__ for p in (params.values() if isinstance(params, dict) else params)]
                res.violation(f'{bad[0]}:{method}', dict(method=method, arity=arity, alpha=case['alpha'],
                                                         params=json.dumps(params), config=config,
                                                         **({'handshake': case['handshake']}
                                                            if 'handshake' in case else {})),
                              dict(method=method, params=json.dumps(params)[:300], **bad[1]))
        # differential: what the other client is told afterwards
        got = finish_run(s, other)
        if got != baseline(config):
            idx = next(i for i, (a, b) in enumerate(zip(got, baseline(config))) if a != b)
            res.violation(f'other-client-told-something-else:{method}',
                          dict(method=method, arity=arity, alpha=case['alpha'],
                               by_name=case.get('by_name'), first=case.get('first'),
                               config=config, **({'handshake': case['handshake']}
                                                 if 'handshake' in case else {})),
                          dict(method=method, differing_item=idx))
        res.count('differential_runs')
        res.distinct('methods', method)
        if s.check_tasks():
            res.violation(f'server-task-died:{method}', case, dict(tasks=s.check_tasks()))
    finally:
        s.close()
    if method == 'blockchain.block.headers' and case.get('first') == 3:
        res.sample({'method': method, 'example_params': [json.dumps(p)[:60] for p in plist[:6]],
                    'requests_in_case': len(plist)}, cap=1)


def cases_for(tier):
    q = tier == 'quick'
    full, small, tiny = alphabet()
    cases = []
    for method, names in METHODS.items():
        n = len(names)
        for arity in range(0, n + 2):
            if arity <= 2:
                if arity == 2 and not q or arity < 2:
                    cases.append(dict(method=method, arity=arity, alpha='full'))
                else:
                    for first in range(len(full)):
                        cases.append(dict(method=method, arity=2, alpha='full', first=first))
            elif arity == 3:
                a = 'small' if (q or n < 3) else 'full'
                if n < 2:
                    a = 'tiny'
                size = len({'full': full, 'small': small, 'tiny': tiny}[a])
                for first in range(size):
                    cases.append(dict(method=method, arity=3, alpha=a, first=first))
            elif arity == 4 and n >= 3:
                a = 'tiny' if q else 'small'
                size = len({'small': small, 'tiny': tiny}[a])
                for first in range(size):
                    cases.append(dict(method=method, arity=4, alpha=a, first=first))
            elif arity == 5 and n == 4:
                cases.append(dict(method=method, arity=5, alpha='tiny', first=9))
        if n:
            cases.append(dict(method=method, arity=min(n, 2), alpha='small' if n <= 2 else 'tiny',
                              by_name=True))
    # the method table depends on the negotiated protocol version: also with no handshake at
    # all and with the oldest supported version
    for method, names in METHODS.items():
        if method == 'server.version':
            continue
        for hs in (None, '1.4'):
            for arity in range(0, len(names) + 2):
                a = 'small' if arity <= 2 else 'tiny'
                if arity <= 3:
                    cases.append(dict(method=method, arity=arity, alpha=a, handshake=hs))
    cases += [dict(raw=name) for name in RAW_SHAPES]
    # the same requests against a server run with the documented DROP_CLIENT setting
    cases += [dict(c, config='drop') for c in cases if c.get('method') == 'server.version']
    # ... and the peer methods against a server with peer discovery on (the default setting)
    cases += [dict(c, config='peers-on') for c in cases
              if c.get('method') in ('server.add_peer', 'server.peers.subscribe', 'server.features')
              and 'config' not in c]
    return cases


def run(tier, seed, started):
    cases = cases_for(tier)
    res = farm(run_case, cases, seed=seed, chunk=2)
    c = res.counters
    if c.get('requests', 0) < 50000 or res.sets.get('methods') != set(METHODS) or \
            not c.get('answered') or not c.get('refused'):
        common.vacuous(PROP, res, f'vacuous C16 run: {c}')
    sizes = [len(a) for a in alphabet()]
    coverage = {
        'evaluations': c['requests'],
        'distinct_nontrivial': c['requests'] - c.get('answered', 0),
        'rule': (f'every method x full product of the JSON alphabet for arity 0..2 ({sizes[0]} values), arity 3 '
                 f'over {sizes[1]} (quick) / {sizes[0]} values, arity 4 over {sizes[2]} / {sizes[1]} values, one too many, and by-name '
                 'forms; non-trivial = requests that were refused (malformed for that method)'),
        'answered': c['answered'], 'refused': c['refused'],
        'differential_runs': c['differential_runs'],
        'exhaustive': True, 'bounds': {'tier': tier, 'cases': len(cases)},
    }
    assumptions = ['aiorpcx framing / JSON-RPC layer trusted', 'request cost limits disabled '
                   '(COST_*_LIMIT=0) so that throttling does not interfere']
    return finish(PROP, tier, seed, 'exploration', res, coverage, assumptions, started)


def replay(path):
    return common.standard_replay(PROP, path, run_case)
