'''C05 - a crash in the middle of undoing blocks is recoverable.

Fault enumeration: reorganisations (natural depth 1..3, forced n = 1..3) are recorded on the real
block processor; for every prefix of the effect log between the start of the first backup_block
and the end of the last one (i.e. every cut inside flush_backup of every block and between
blocks) the post-crash image is restarted with one of three continuations: the daemon stays on
the new branch; the daemon has returned to the old branch (extended by a block); a forced
reorg where the chain never changed.  After restart and catch-up the index must equal the
reference index and a fresh real server of the daemon's chain.
'''
import itertools

from vf import common, crashrun, observe, reorgrun, world
from vf.common import farm, finish

PROP = 'C05'
ACT = reorgrun.ACTIVATION


def record(case):
    base_recipes = reorgrun.PREFIX + list(case['tail'])
    base = reorgrun.sim_for(base_recipes)
    limit = case.get('limit', 3)
    wparams = dict(reorg_limit=limit, activation=ACT, prefetch=case.get('prefetch', 100))
    m0 = world.Machine()
    try:
        w = world.World(m0, **wparams)
        w.daemon.set_chain(base.blocks)
        w.flush_schedule = {i + 1: (c == 'F') for i, c in enumerate(case.get('flush', ''))
                            if c in 'HF'}
        w.start_sync()
        w.run_until_caught_up()
        m0.log.clear()
        snapshot = m0.snapshot()
        marks = []
        is_backup = lambda job: getattr(job.func, '__func__', None) is \
            w.bpmod.BlockProcessor.backup_block
        w.on_job_start = lambda job: marks.append(('start', len(m0.log))) if is_backup(job) else None
        w.on_job_end = lambda job: marks.append(('end', len(m0.log))) if is_backup(job) else None
        if case['kind'] == 'natural':
            y = reorgrun.make_branch(base_recipes, case['d'], case['branch'], b'Y', base)
            new_blocks = y.blocks
            w.daemon.set_chain(new_blocks)
        else:
            if not w.bp.force_chain_reorg(case['n']):
                raise common.Broken('forced reorg refused')
            new_blocks = base.blocks
        try:
            w.poll()
        except (world.SyncFailed, world.Stalled) as e:
            raise UninterruptedFailed(repr(e.args[0] if e.args else e)[:200])
        if not w.at_daemon_tip():
            raise UninterruptedFailed('not at the daemon tip')
        if not marks:
            raise common.Broken('recorded run undid no block')
        log = list(m0.log)
        w.close(destroy=False)
    finally:
        m0.destroy()
    x_ext = reorgrun.sim_for(base_recipes + ['new', 'old', 'cb']).blocks   # longer than any branch
    return dict(snapshot=snapshot, log=log, marks=marks, params=dict(world=wparams),
                base=base.blocks, new=new_blocks, x_ext=x_ext, limit=limit)


class UninterruptedFailed(Exception):
    '''The reorganisation does not even complete without a crash (the degenerate crash point
    "after the last effect"): nothing to recover to.'''


def continuations(case, rec):
    if case['kind'] == 'natural':
        conts = [('daemon-on-new-branch', rec['new'])]
        # returning to the old branch undoes up to d+1 blocks of a chain of height 7; the
        # property is stated for chains at least twice as high as the fork is deep
        if 2 * (case['d'] + 1) <= len(rec['new']) - 1:
            conts.append(('undone-block-still-on-daemon-chain', rec['x_ext']))
        return conts
    return [('undone-block-still-on-daemon-chain', rec['base']),
            ('undone-block-still-on-daemon-chain', rec['x_ext'])]


def check_point(rec, case, k, nbytes, res):
    log = rec['log']
    kind = crashrun.kind_of(log, k, nbytes)
    for cont, final_blocks in continuations(case, rec):
        m = crashrun.open_after_crash(rec['snapshot'], log, k, nbytes, rec['params'])
        failures = []
        try:
            w = world.World(m, **rec['params']['world'])
            try:
                w.daemon.add_known(rec['base'] + rec['new'] + rec['x_ext'])
                w.daemon.set_chain(final_blocks)
                w.start_sync()
                try:
                    w.run_until_caught_up()
                except world.SyncFailed as e:
                    failures.append(('restart-died', dict(error=repr(e.args[0]))))
                except world.Stalled as e:
                    failures.append(('restart-stalled', dict(error=repr(e))))
                else:
                    try:
                        reorgrun.check_final(w, final_blocks, res, failures, rec['limit'],
                                             label='after-restart', populate=True)
                    except (world.ReaderBlocked, observe.ReadFailed, RuntimeError) as e:
                        failures.append(('after-restart:reader-retries-forever', dict(error=repr(e))))
            finally:
                w.close(destroy=False)
        finally:
            m.destroy()
        res.count('crash_points_x_continuations')
        res.count('kind:' + kind.split(':')[0])
        res.distinct('kinds', (kind, cont))
        for field, detail in failures[:2]:
            fld = field.split(':')[-1]
            fclass = 'history' if fld.startswith('history') or fld in ('differs-from-fresh-server',) \
                else fld
            res.violation(f'{cont}:{kind}:{fclass}',
                          dict(case, k=k, nbytes=nbytes, cont=cont),
                          dict(crash_point=k, kind=kind, continuation=cont,
                               final_height=len(final_blocks) - 1, field=field,
                               **{a: b for a, b in detail.items() if a in
                                  ('script', 'got', 'want', 'error', 'fields', 'height')}))
            break


def run_case(case, res):
    try:
        rec = record(case)
    except UninterruptedFailed as e:
        res.count('scenarios')
        res.violation('reorg-fails-even-without-a-crash', case, dict(error=str(e)))
        return
    log, marks = rec['log'], rec['marks']
    lo = min(i for t, i in marks if t == 'start')
    hi = len(log)       # ... and on through re-indexing the new branch up to catch-up
    res.count('scenarios')
    res.count('backup_jobs', sum(1 for t, _ in marks if t == 'start'))
    if 'k' in case:
        check_point(rec, case, case['k'], case['nbytes'], res)
        return
    for k, nbytes in crashrun.crash_points(log, lo=lo, hi=hi):
        check_point(rec, {x: case[x] for x in case}, k, nbytes, res)
    res.sample({'scenario': case, 'cuts': [lo, hi],
                'effects_in_window': [crashrun.kind_of(log, i, None) for i in range(lo, hi)]}, cap=1)


def cases_for(tier):
    q = tier == 'quick'
    tails = list(itertools.product(['old', 'new', 'chain2', 'multi', 'fan'], repeat=3))
    tails = tails[::14] if q else tails
    cases = []
    for tail in tails:
        for d in (1, 2, 3):
            for first in (('replay', 'conflict') if q else ('replay', 'conflict', 'cb')):
                for fl in ('', '----F', '---H-'):
                    cases.append(dict(kind='natural', tail=list(tail), d=d, flush=fl,
                                      branch=[first] + ['new'] * d, limit=5))
        for n in (1, 2, 3):
            cases.append(dict(kind='forced', tail=list(tail), n=n, flush='---F', limit=3))
    return cases


def run(tier, seed, started):
    cases = cases_for(tier)
    res = farm(run_case, cases, seed=seed, chunk=1)
    c = res.counters
    need = ['kind:before-hist-batch', 'kind:before-utxo-batch']
    if [k for k in need if not c.get(k)] or c.get('backup_jobs', 0) <= c.get('scenarios', 0):
        common.vacuous(PROP, res, f'vacuous C05 run: {c}')
    coverage = {
        'evaluations': c['crash_points_x_continuations'],
        'distinct_nontrivial': len(res.sets.get('kinds', ())),
        'rule': ('every prefix of the effect log from the start of the first backup_block to the '
                 'end of the last (incl. between the history rollback commit and the UTXO rollback '
                 'commit of every block, and between blocks) x continuation; distinct_nontrivial = '
                 'distinct (crash-point kind, continuation) pairs'),
        'scenarios': c['scenarios'], 'backup_jobs': c['backup_jobs'],
        'crash_points_by_kind': {k[5:]: v for k, v in sorted(c.items()) if k.startswith('kind:')},
        'fresh_server_comparisons': c.get('fresh_server_comparisons', 0),
        'exhaustive': True,
    }
    assumptions = ['crash = process death; LevelDB batches atomic',
                   'fork depth within the reorg limit']
    return finish(PROP, tier, seed, 'fault_enumeration', res, coverage, assumptions, started)


def replay(path):
    return common.standard_replay(PROP, path, run_case)
