'''C08 - a synchronised mempool view is exact.

Exhaustive bounded enumeration of mempool histories on the real MemPool tracker wired to the
real DB / block processor (full system under the hand-stepped loop): a 7-transaction universe
over a really indexed chain (child, grandchild, mixed confirmed + unconfirmed inputs, a
generation-like input, several outputs to one script, a spend of a prefix-colliding confirmed
output); all sequences of up to 2 (quick) / 3 (thorough) daemon states, each step being any
arrivals / evictions and optionally a real new block confirming a parent-closed subset, x
delivery order (parents first / children first) x fetch batching (one batch, batches of 1 and
2, through an explorer-controlled replacement of the chunking helper).
Oracle after each quiet refresh: for every spendable script hash balance delta, transaction
summaries (fee, unconfirmed-inputs flag), unconfirmed UTXOs equal the mempool reference and
potential_spends contains every real spend; the union of touched sets handed to on_mempool
during the step contains every script hash that gained or lost a transaction.
'''
import itertools

from vf import common, mpuniverse, system
from vf.chain import SCRIPTS, script_hashX
from vf.common import farm, finish

PROP = 'C08'
ACT = mpuniverse.ACT
ORDERS = ('parents-first', 'children-first')
CHUNKS = (200, 1, 2)


def install_partitioner(s, u, order, chunk):
    import electrumx.server.mempool as mpmod

    def chunks(items, size):
        if size != 200:
            return mpmod_orig_chunks(items, size)
        names = [(mpuniverse.NAMES.index(u.by_id.get(bytes(h), 't1')), h) for h in items]
        names.sort(reverse=(order == 'children-first'))
        seq = [h for _i, h in names]
        for i in range(0, len(seq), chunk):
            yield seq[i:i + chunk]
    from electrumx.lib.util import chunks as mpmod_orig_chunks
    mpmod.chunks = chunks


def restore_partitioner():
    import electrumx.server.mempool as mpmod
    from electrumx.lib.util import chunks
    mpmod.chunks = chunks


def touching(per):
    return {script: {t[0] for t in v['summaries']} for script, v in per.items()}


def run_steps(s, u, steps, res, case, judge_touched=True):
    sim = u.sim.copy(b'')
    touched_log = []
    n = s.notifications
    inner = n.on_mempool

    async def on_mempool(touched, height):
        touched_log.append(set(touched))
        return await inner(touched, height)
    n.on_mempool = on_mempool
    s.mempool.api.on_mempool = on_mempool
    prev_per, _ = mpuniverse.mempool_reference(u, (), sim.blocks)
    confirmed = set()
    for k, (names, confirm) in enumerate(steps):
        if confirm:
            u.block_with(sim, confirm)
            confirmed.update(confirm)
            s.daemon.set_chain(sim.blocks)
        s.daemon.set_mempool([u.txs[x] for x in mpuniverse.NAMES if x in names])
        del touched_log[:]
        s.run_idle()
        per, _info = mpuniverse.mempool_reference(u, names, sim.blocks)
        before, after = touching(prev_per), touching(per)
        failures = []
        compared = 0
        # every refresh that completes from now on ran on a stable daemon: the FIRST one must
        # already be exact (a later refresh healing the view does not count)
        for _round in range(4):
            n_before = len(touched_log)
            s.advance(5.5)
            dead = s.check_tasks()
            if dead:
                failures.append(('server-task-ended', dict(tasks=dead)))
                break
            if len(touched_log) == n_before:
                continue            # no refresh completed (index still behind the daemon)
            if s.db.state.height != len(sim.blocks) - 1:
                failures.append(('refresh-completed-with-index-behind', {}))
                break
            compared += 1
            res.count('refreshes_compared')
            obs = mpuniverse.observe_mempool(s)
            for field, detail in mpuniverse.compare_mempool(obs, per):
                failures.append((field + (':first-refresh' if compared == 1 else ':later-refresh'),
                                 dict(script=detail['script'].hex(),
                                      **{a: b for a, b in detail.items() if a != 'script'})))
            if compared == 1 and judge_touched:
                told = set().union(*touched_log)
                for script in per:
                    if before[script] != after[script] and script_hashX(script) not in told:
                        failures.append(('touched-set-misses-script', dict(
                            script=script.hex(), gained=sorted(after[script] - before[script]),
                            lost=sorted(before[script] - after[script]))))
            if failures or compared >= 2:
                break
        if not failures and compared == 0:
            failures.append(('no-refresh-completed', {}))
        res.count('refresh_steps')
        prev_per = per
        res.distinct('mempool_states', (tuple(sorted(names)), tuple(sorted(confirmed))))
        for field, detail in failures[:2]:
            res.violation(f'{field}', case, dict(step=k, mempool=list(names), confirmed_now=list(confirm),
                                                 **detail))
        if failures:
            return False
    return True


def case_longchain(case, res):
    '''A long chain of unconfirmed transactions (each spends the previous one) becomes visible in
    ONE refresh, examined in the given order and batching; the first completed refresh must hold
    all of it.'''
    from vf.chain import Tx
    u = mpuniverse.universe()
    L, order, chunk = case['length'], case['order'], case['chunk']
    ref = mpuniverse.RefIndex(u.sim.blocks, ACT)
    op, (script0, value, _h, _n) = max(((o, d) for o, d in ref.utxos.items()
                                        if d[0] == SCRIPTS['A']), key=lambda kv: kv[1][1])
    chain_txs = []
    prev, v = op, value
    for i in range(L):
        v -= 10
        t = Tx([(prev[0], prev[1], b'\x01\x51', 0xffffffff)], [(v, SCRIPTS['B' if i % 2 else 'A'])])
        chain_txs.append(t)
        prev = (t.txid, 0)
    pos = {t.txid: i for i, t in enumerate(chain_txs)}
    import electrumx.server.mempool as mpmod
    from electrumx.lib.util import chunks as orig_chunks

    def chunks(items, size):
        if size != 200:
            return orig_chunks(items, size)
        seq = sorted(items, key=lambda h: pos.get(bytes(h), 0), reverse=(order == 'children-first'))
        if order == 'interleaved':
            seq = seq[::2] + seq[1::2][::-1]
        return (seq[i:i + chunk] for i in range(0, len(seq), chunk))
    s = system.System(reorg_limit=5, activation=ACT)
    try:
        mpmod.chunks = chunks
        s.boot(u.sim.blocks)
        reports = []
        inner = s.notifications.on_mempool

        async def on_mempool(touched, height):
            reports.append(set(touched))
            return await inner(touched, height)
        s.notifications.on_mempool = on_mempool
        s.mempool.api.on_mempool = on_mempool
        s.daemon.set_mempool(chain_txs)
        for _ in range(4):
            s.advance(5.5)
            if reports:
                break
        res.count('longchain_executions')
        bad = None
        if s.check_tasks():
            bad = ('server-task-ended', dict(tasks=s.check_tasks()))
        elif not reports:
            bad = ('no-refresh-completed', {})
        else:
            have = set(s.mempool.txs)
            missing = [pos[t.txid] for t in chain_txs if t.txid not in have]
            if missing:
                bad = ('long-chain:transactions-missing-after-the-first-refresh',
                       dict(missing=len(missing), first_missing_level=min(missing)))
            else:
                want = {SCRIPTS['A']: -value + sum(t.outputs[0][0] for i, t in enumerate(chain_txs)
                                                    if i % 2 == 0) - sum(
                    chain_txs[i - 1].outputs[0][0] for i in range(1, L) if (i - 1) % 2 == 0),
                        SCRIPTS['B']: sum(t.outputs[0][0] for i, t in enumerate(chain_txs) if i % 2)
                        - sum(chain_txs[i - 1].outputs[0][0] for i in range(1, L) if (i - 1) % 2)}
                for scr, w_ in want.items():
                    got = s.loop.run_coro(s.mempool.balance_delta(script_hashX(scr)), fire_timers=False)
                    if got != w_:
                        bad = ('long-chain:balance_delta', dict(script=scr.hex(), got=got, want=w_))
                if not bad and not {script_hashX(SCRIPTS['A']), script_hashX(SCRIPTS['B'])} <= reports[0]:
                    bad = ('long-chain:touched-set-misses-script', {})
        if bad:
            res.violation(bad[0], case, dict(case, **bad[1]))
    finally:
        mpmod.chunks = orig_chunks
        s.close()


def run_case(case, res):
    if 'length' in case:
        return case_longchain(case, res)
    u = mpuniverse.universe()
    s = system.System(reorg_limit=5, activation=ACT)
    try:
        install_partitioner(s, u, case['order'], case['chunk'])
        s.boot(u.sim.blocks)
        steps = [(tuple(a), tuple(b)) for a, b in case['steps']]
        run_steps(s, u, steps, res, case)
        res.count('executions')
        if any(c for _n, c in steps):
            res.count('executions_with_confirming_block')
    finally:
        restore_partitioner()
        s.close()
    if len(case['steps']) == 2 and case['steps'][1][1] == ['t1', 't2'] and case['chunk'] == 1:
        res.sample(case, cap=1)


def gen_steps(u, tier):
    q = tier == 'quick'
    all_states = u.states()
    seqs = []
    for s1 in all_states:
        seqs.append([(s1, ())])
    s1_list = all_states if not q else [x for i, x in enumerate(all_states) if i % 2 == 0 or len(x) >= 6]
    conf_list = u.confirmable()
    if q:
        conf_list = [c for c in conf_list if len(c) <= 2 or c in (('t1', 't2', 't3'), ('t1', 't2', 't4'))]
    for s1 in s1_list:
        for c2 in dict.fromkeys(conf_list):
            for s2 in u.states(confirmed=c2):
                if q and (len(set(s2) ^ set(s1)) > 4):
                    continue
                seqs.append([(s1, ()), (s2, c2)])
    if not q:
        for s1 in all_states[::6]:
            for c2 in conf_list[::3]:
                for s2 in u.states(confirmed=c2)[::4]:
                    for c3 in u.confirmable(confirmed=c2)[::4]:
                        for s3 in u.states(confirmed=tuple(c2) + tuple(c3))[::5]:
                            seqs.append([(s1, ()), (s2, c2), (s3, c3)])
    return seqs


def cases_for(tier):
    u = mpuniverse.universe()
    cases = []
    for n, steps in enumerate(gen_steps(u, tier)):
        variants = list(itertools.product(ORDERS, CHUNKS))
        if tier == 'quick' and len(steps) > 1:
            variants = [variants[n % 6], variants[(n + 4) % 6]]
        for order, chunk in variants:
            cases.append(dict(steps=[[list(a), list(b)] for a, b in steps], order=order, chunk=chunk))
    # chains of unconfirmed transactions far longer than the universe's
    for length in (5, 26, 27, 60) if tier == 'quick' else (5, 25, 26, 27, 28, 60, 150):
        for order in ('parents-first', 'children-first', 'interleaved'):
            for chunk in (200, 7, 1):
                cases.append(dict(length=length, order=order, chunk=chunk))
    return cases


def run(tier, seed, started):
    common.setup_imports()
    cases = cases_for(tier)
    res = farm(run_case, cases, seed=seed)
    c = res.counters
    if c.get('executions', 0) < 1000 or not c.get('executions_with_confirming_block') or \
            len(res.sets.get('mempool_states', ())) < 56:
        common.vacuous(PROP, res, f'vacuous C08 run: {c}')
    coverage = {
        'evaluations': c['executions'],
        'distinct_nontrivial': len(res.sets['mempool_states']),
        'rule': ('every parent-closed subset of the 7-tx universe as the first state; sequences of '
                 'states with optional confirming blocks (parent-closed subsets) x delivery order x '
                 'fetch batching; distinct_nontrivial = distinct (mempool set, confirmed set) pairs '
                 'reached and compared'),
        'refresh_steps_compared': c['refresh_steps'],
        'executions_with_confirming_block': c['executions_with_confirming_block'],
        'long_chain_executions': c.get('longchain_executions', 0),
        'exhaustive': True, 'bounds': {'tier': tier, 'cases': len(cases)},
    }
    assumptions = ['the chunking helper is replaced by a partitioner (batches of 1, 2 or all) so that '
                   'parents and children land in different fetch batches without 200+ transactions',
                   'daemon state changes atomically between refreshes (races are C09)']
    return finish(PROP, tier, seed, 'exploration', res, coverage, assumptions, started)


def replay(path):
    return common.standard_replay(PROP, path, run_case)
