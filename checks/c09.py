'''C09 - the mempool tracker survives every daemon race with its index intact.

Stateless schedule exploration (vf/explore.py) of the real MemPool tracker in the full system
with a SCHEDULED daemon: every daemon reply and every worker job is a separate scheduler
action.  Scenario = (synchronised mempool S0, new daemon mempool S1, one daemon event X); the
refresh towards S1 is started and X - a block confirming a parent-closed subset (with or
without the block processor polling at once, with or without a cache-pressure flush), an
eviction, an arrival, a reorganisation of depth 1 - is placed at EVERY suspension point of the
refresh (deviation bound 1: also every hold / release of a slow reply or job; bound 2 thorough).
Oracle at every quiescent point: the tracker's by-script index is the exact inverse of its
transaction set, every recorded transaction has the input script hashes / values of the outputs
it spends and the fee that follows.  At the end: keep_synchronized is still running; after the
next quiet refreshes the C08 oracle holds for the daemon's final state, and every script hash
whose unconfirmed transactions differ from the view before the races has been reported as
touched by some refresh in between.
Part B (vf/slicedsys.py): a whole refresh is served in the middle of a worker job of the block
processor - at EVERY slice point of every advance_block / backup_block / flush_dbs job of 7 of the
scenarios; same oracles.
'''
import itertools

from vf import chain, common, explore, mpuniverse, reorgrun, slicedsys, system
from vf.common import farm, finish

PROP = 'C09'
ACT = mpuniverse.ACT


def ev_mempool(names):
    def f(s):
        u = mpuniverse.universe()
        s.daemon.set_mempool([u.txs[x] for x in mpuniverse.NAMES if x in names])
        s.x_final_names = tuple(names)
    return ('mempool:' + '+'.join(names), f)


def ev_block(confirm, after_names, poll, flush=False):
    def f(s):
        u = mpuniverse.universe()
        sim = u.sim.copy(b'')
        u.block_with(sim, confirm)
        if flush:
            s.flush_schedule = {len(sim.blocks) - 1: True}
        s.daemon.set_chain(sim.blocks)
        s.daemon.set_mempool([u.txs[x] for x in mpuniverse.NAMES if x in after_names])
        s.x_final_names = tuple(after_names)
        s.x_final_blocks = sim.blocks
        if poll:
            s.loop.fire_polling_timer()
    return (f'block:{"+".join(confirm)}' + (':poll' if poll else '') + (':flush' if flush else ''), f)


def ev_reorg(after_names, poll):
    def f(s):
        u = mpuniverse.universe()
        y = reorgrun.make_branch(mpuniverse.BASE, 1, ['cb', 'cb'], b'Y', u.sim)
        s.daemon.add_known(u.sim.blocks)
        s.daemon.set_chain(y.blocks)
        s.daemon.set_mempool([u.txs[x] for x in mpuniverse.NAMES if x in after_names])
        s.x_final_names = tuple(after_names)
        s.x_final_blocks = y.blocks
        if poll:
            s.loop.fire_polling_timer()
    return ('reorg1' + (':poll' if poll else ''), f)


def ev_reorg_renumber(after_names, poll):
    '''The tip block [cb, t1, t2] is replaced by [cb', t6, t1] + [cb'']: transaction numbers are reused
    for other transactions, and t2 is unconfirmed again and spends t1 at its new number.'''
    def f(s):
        u = mpuniverse.universe()
        sim = u.sim.copy(b'Y')
        sim.add_block([sim.cb(), u.txs['t6'], u.txs['t1']], 'confirm')
        sim.add_block([sim.cb()], 'cb')       # the new branch is longer, so it is noticed
        s.daemon.add_known(s.x_final_blocks)
        s.daemon.set_chain(sim.blocks)
        s.daemon.set_mempool([u.txs[x] for x in mpuniverse.NAMES if x in after_names])
        s.x_final_names = tuple(after_names)
        s.x_final_blocks = sim.blocks
        if poll:
            s.loop.fire_polling_timer()
    return ('reorg-renumber' + (':poll' if poll else ''), f)


def ev_fall(after_names):
    '''The daemon drops its tip block (invalidateblock, a lagging fail-over daemon): its height
    FALLS below the index; the block's transactions are unconfirmed again.'''
    def f(s):
        u = mpuniverse.universe()
        s.daemon.add_known(s.x_final_blocks)
        s.daemon.set_chain(u.sim.blocks)
        s.daemon.set_mempool([u.txs[x] for x in mpuniverse.NAMES if x in after_names])
        s.x_final_names = tuple(after_names)
        s.x_final_blocks = u.sim.blocks
    return ('daemon-falls', f)


def ev_outgrow(after_names):
    '''... and then grows two other blocks, outgrowing the index.'''
    def f(s):
        u = mpuniverse.universe()
        sim = u.sim.copy(b'W')
        sim.add_block([sim.cb()], 'cb')
        sim.add_block([sim.cb()], 'cb')
        s.daemon.set_chain(sim.blocks)
        s.daemon.set_mempool([u.txs[x] for x in mpuniverse.NAMES if x in after_names])
        s.x_final_names = tuple(after_names)
        s.x_final_blocks = sim.blocks
        s.loop.fire_polling_timer()
    return ('daemon-outgrows:poll', f)


S0S1 = [((), ('t1', 't2', 't3', 't4', 't6', 't7')),
        (('t1',), ('t1', 't2', 't4', 't5')),
        (('t1', 't2', 't4'), ('t1', 't2', 't3', 't4', 't6'))]


def events_for(s1):
    out = [('evict', lambda: ev_mempool(tuple(x for x in s1 if x not in ('t2', 't3')))),
           ('arrive', lambda: ev_mempool(tuple(s1) + (('t6',) if 't6' not in s1 else ('t7',)))),
           ('block-t1', lambda: ev_block(('t1',), tuple(x for x in s1 if x != 't1'), False)),
           ('block-t1-poll', lambda: ev_block(('t1',), tuple(x for x in s1 if x != 't1'), True)),
           ('block-t1t2-poll-flush', lambda: ev_block(('t1', 't2'), tuple(
               x for x in s1 if x not in ('t1', 't2')), True, True)),
           ('block-t1t4-poll', lambda: ev_block(('t1', 't4'), tuple(
               x for x in s1 if x not in ('t1', 't4')), True)),
           ('reorg1-poll', lambda: ev_reorg(tuple(x for x in s1 if x != 't7'), True)),
           # a tx vanishes between listing and fetching and is back before the next listing
           ('evict-and-return', lambda: [ev_mempool(tuple(x for x in s1 if x not in ('t4', 't6'))),
                                         ev_mempool(tuple(s1))]),
           # the block confirming the spend of a prefix-colliding output (its sibling stays
           # unspent) is flushed while the tx is being fetched
           ('block-t7-poll-flush', lambda: ev_block(('t7',), tuple(x for x in s1 if x != 't7'),
                                                    True, True)),
           # t1 and t2 confirm, the tracker resolves t3's input against the index; then that
           # block is replaced by one holding other transactions at the same numbers
           ('confirm-then-reorg-renumber', lambda: [
               ev_block(('t1', 't2'), tuple(x for x in s1 if x not in ('t1', 't2')), True),
               'tick', 'tick',
               ev_reorg_renumber(tuple(x for x in s1 if x not in ('t1', 't6')), True)]),
           # the daemon's height falls below the index (the mempool tracker sees that before
           # the block processor can do anything about it), later another branch outgrows it
           ('block-then-daemon-falls-then-outgrows', lambda: [
               ev_block(('t1',), tuple(x for x in s1 if x != 't1'), True), 'tick', 'tick',
               ev_fall(tuple(s1)), 'tick', 'tick', ev_outgrow(tuple(s1))])]
    return out


def make_system(s0):
    u = mpuniverse.universe()
    s = system.System(reorg_limit=5, activation=ACT, immediate_daemon=False)
    s.boot(u.sim.blocks, [u.txs[x] for x in mpuniverse.NAMES if x in s0])
    s.run_idle()
    s.x_final_names = tuple(s0)
    s.x_final_blocks = u.sim.blocks
    s.x_first_names = tuple(s0)
    s.x_reports_at_start = len(s.mp_touched_log)
    return s


def run_case(case, res):
    u = mpuniverse.universe()
    s0, s1 = S0S1[case['pair']]
    evname, evmaker = events_for(s1)[case['event']]
    bad_points = []

    def point_hook(run):
        if not bad_points:
            bad = mpuniverse.check_internal(run.s, u)
            if bad:
                bad_points.append((bad[0], len(run.taken)))

    def script_of(s):
        # new mempool, a bp poll, the refresh starts; X by default after the refresh
        x = evmaker()
        return [ev_mempool(s1), 'tick', 'tick'] + (x if isinstance(x, list) else [x]) + ['tick', 'tick']

    def judge(run):
        s = run.s
        failures = []
        if bad_points:
            (key, detail), at = bad_points[0]
            failures.append((key + ':' + evname, dict(detail, at_choice_point=at)))
            del bad_points[:]
        dead = s.check_tasks()
        if dead:
            failures.append(('task-ended:' + evname, dict(tasks=dead)))
            return failures
        bad = mpuniverse.check_internal(s, u)
        if bad:
            failures.append((bad[0][0] + ':at-end:' + evname, bad[0][1]))
        if s.mislabelled_reports:
            # a refresh is reported for the daemon height its listing was made at
            failures.append(('refresh-reported-under-another-height-than-its-listing:' + evname,
                             dict(s.mislabelled_reports[0])))
        if s.db.state.height != len(s.x_final_blocks) - 1:
            failures.append(('index-not-at-daemon-height-at-end:' + evname, {}))
        else:
            per, _ = mpuniverse.mempool_reference(u, s.x_final_names, s.x_final_blocks)
            obs = mpuniverse.observe_mempool(s)
            for field, detail in mpuniverse.compare_mempool(obs, per)[:1]:
                failures.append((f'quiet-refresh-not-exact:{field}:{evname}',
                                 dict(script=detail['script'].hex(),
                                      **{a: b for a, b in detail.items() if a != 'script'})))
            # every script hash whose set of unconfirmed transactions differs between the
            # synchronised view before the races and the one after them has been reported as
            # touched by some refresh in between (reports of aborted refreshes must carry over)
            per0, _ = mpuniverse.mempool_reference(u, s.x_first_names, u.sim.blocks)
            reported = set().union(*s.mp_touched_log[s.x_reports_at_start:]) \
                if len(s.mp_touched_log) > s.x_reports_at_start else set()
            for script in per:
                a = {t for t, _f, _u in per0[script]['summaries']}
                b = {t for t, _f, _u in per[script]['summaries']}
                if a != b:
                    res.count('touched_obligations')
                    if chain.script_hashX(script) not in reported:
                        failures.append((f'changed-script-never-reported-touched:{evname}',
                                         dict(script=script.hex())))
                        break
        res.distinct('final_states', (evname, s.x_final_names))
        return failures

    if case.get('sliced'):
        # Part B: a whole refresh served in the middle of a worker job of the block processor
        def inject(s):
            if not s.loop.fire_polling_timer():
                raise common.Broken('no refresh timer to fire in the middle of the job')

        def after(s):
            if not bad_points:
                bad = mpuniverse.check_internal(s, u)
                if bad:
                    bad_points.append((bad[0], -1))

        def make():
            s = make_system(s0)
            s.daemon.immediate = True
            return s
        if case.get('paused'):
            # ... or a refresh that passed its height check and fetched its transactions BEFORE
            # the event, and whose index lookups (worker jobs) only run at slice point k
            def make():         # noqa
                s = make_system(s0)
                s.daemon.immediate = True
                x = evmaker()
                x = x if isinstance(x, list) else [x]
                # everything but the last event happens first, under the default schedule
                late = case.get('late')     # a transaction that only arrives at the pause
                for ev in [ev_mempool(s1), 'tick', 'tick'] + x[:-1]:
                    if ev == 'tick':
                        s.loop.fire_polling_timer()
                    else:
                        ev[1](s)
                        if late:
                            s.daemon.mempool.pop(u.txs[late].txid, None)
                    s.run_idle()
                if late:
                    s.daemon.set_mempool(list(s.daemon.mempool.values()) + [u.txs[late]])
                # start a refresh and stop it in front of its index lookups
                for _ in range(6):
                    s.loop.fire_polling_timer()
                    for _n in range(20000):
                        if any(getattr(j.func, '__name__', '').startswith('lookup_')
                               for j in s.loop.pending_jobs()):
                            break
                        if s.step_default() is None:
                            break
                    held = [j for j in s.loop.pending_jobs()
                            if getattr(j.func, '__name__', '').startswith('lookup_')]
                    if held:
                        break
                if not held:
                    res.count('paused_refresh_had_nothing_to_look_up')
                for j in held:
                    j.held = True
                s.x_last_event = x[-1]
                return s

            def inject(s):      # noqa
                for j in s.loop.jobs:
                    j.held = False

            def script_of(s):   # noqa
                return [s.x_last_event, 'tick', 'tick']
        found = slicedsys.enumerate_points(make, script_of, inject, judge, res,
                                           f'{case["pair"]}/{evname}', closing_ticks=10,
                                           only_k=case.get('k'), after=after)
        for k, key, detail in found:
            res.violation(key + ':refresh-served-mid-job', dict(case, k=k), detail)
        res.distinct('sliced_scenarios', (case['pair'], evname))
        return
    explore.explore(lambda: make_system(s0), script_of, case['bound'], judge, res,
                    dict(case, scenario=f'{case["pair"]}/{evname}'),
                    only=case.get('choices'), point_hook=point_hook, closing_ticks=10,
                    shard=case.get('shard'))
    res.distinct('scenarios', (case['pair'], evname))
    if case['pair'] == 0 and case['event'] == 3:
        res.sample({'scenario': f'S0={s0} S1={s1} X={evname}', 'bound': case['bound']}, cap=1)


def cases_for(tier):
    bound = 1 if tier == 'quick' else 2
    cases = []
    for pair in range(len(S0S1)):
        for ev in range(11):
            if 't7' not in S0S1[pair][1] and ev == 8:
                continue
            if ev == 9 and pair != 2:
                continue
            if ev == 10 and pair == 2:
                continue
            if tier == 'quick' and pair == 2 and ev not in (3, 4, 6, 7, 9):
                continue
            b = bound if (tier == 'quick' or (pair == 1 and ev in (0, 3, 7, 8))) else 1
            n = 2 if b == 1 else 8
            for i in range(n):
                cases.append(dict(pair=pair, event=ev, bound=b, shard=[i, n]))
    for pair, ev in ((0, 3), (0, 4), (0, 5), (0, 6), (0, 8), (1, 4), (2, 9)):
        cases.append(dict(pair=pair, event=ev, sliced=True))
        cases.append(dict(pair=pair, event=ev, sliced=True, paused=True))
        if 't4' in S0S1[pair][1]:
            cases.append(dict(pair=pair, event=ev, sliced=True, paused=True, late='t4'))
    return cases


def run(tier, seed, started):
    common.setup_imports()
    cases = cases_for(tier)
    res = farm(run_case, cases, seed=seed, chunk=1)
    c = res.counters
    kinds = res.sets.get('deviation_kinds', set())
    if c.get('executions', 0) < 500 or not {'next', 'hold', 'release'} <= kinds or \
            c.get('sliced_executions', 0) < 100:
        common.vacuous(PROP, res, f'vacuous C09 run: {c} {kinds}')
    coverage = {
        'evaluations': c['executions'] + c['sliced_executions'],
        'sliced_executions(refresh served mid-job)': c['sliced_executions'],
        'distinct_nontrivial': len(res.sets.get('schedules', ())),
        'rule': ('scenarios (S0, S1, X) x every choice vector with total deviation cost <= bound at '
                 'the quiescent points of the explored phase (X or a timer overtaking a pending '
                 'reply/job, a younger reply/job first, hold of the oldest + release at any later '
                 'point); distinct_nontrivial = distinct (scenario, choice vector)'),
        'deviation_bound_completed': 1 if tier == 'quick' else '2 on four scenarios of the second (S0, S1) pair; 1 on all',
        'choice_points': c['choice_points'],
        'max_choice_points_in_one_execution': c.get('max:choice_points_in_one_execution'),
        'deviation_kinds_used': sorted(kinds),
        'scenarios': len(res.sets.get('scenarios', ())),
        'exhaustive': c.get('exploration_cap_hits', 0) == 0,
    }
    assumptions = ['choice points only where the loop\'s ready queue is empty', 'worker jobs atomic',
                   'protocol time-outs (30 s) never fire']
    return finish(PROP, tier, seed, 'exploration', res, coverage, assumptions, started)


def replay(path):
    return common.standard_replay(PROP, path, run_case)
