#!/bin/sh
# usage: tools/run_all.sh [quick|thorough] [VERIF_SEED]  -- run every registered check on /repo as it is; summary table.
tier=${1:-quick}; export VERIF_SEED=${2:-0}
cd /verif
git -C /repo diff --quiet || { echo "/repo has uncommitted changes - refusing"; exit 9; }
for p in $(python3 -c "import json; print(' '.join(c['property_id'] for c in json.load(open('MANIFEST.json'))['checks']))"); do
  s=$(date +%s)
  ./check $p --tier $tier > /tmp/run_all_$p.out 2>&1; code=$?
  e=$(date +%s)
  echo "$p exit=$code $((e-s))s $(grep -c '^VIOLATION' /tmp/run_all_$p.out) violations $(grep -c '^KNOWN-FINDING' /tmp/run_all_$p.out) known"
done
