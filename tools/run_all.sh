#!/bin/sh
# usage: tools/run_all.sh [quick|thorough] [VERIF_SEED]  -- run every registered check on /repo as it is; summary table.
tier=${1:-quick}; export VERIF_SEED=${2:-0}
cd /verif
git -C /repo diff --quiet || { echo "/repo has uncommitted changes - refusing"; exit 9; }
for p in $(python3 -c "import json; print(' '.join(c['property_id'] for c in json.load(open('MANIFEST.json'))['checks']))"); do
  s=$(date +%s)
  ./check $p --tier $tier > /tmp/run_all_$p.out 2>&1; code=$?
  e=$(date +%s)
  echo "$p exit=$code $((e-s))s $(grep -c '^VIOLATION' /tmp/run_all_$p.out) violations $(grep -c '^KNOWN-FINDING' /tmp/run_all_$p.out) known"
done
python3-vt - <<'PY'
import json, jsonschema, glob
s = json.load(open('/root/.vp/EVIDENCE.schema.json'))
bad = 0
for f in sorted(glob.glob('/verif/evidence/*.json')):
    try:
        jsonschema.validate(json.load(open(f)), s)
    except Exception as e:
        bad += 1
        print('EVIDENCE INVALID', f, str(e)[:200])
print('evidence files valid' if not bad else f'{bad} invalid evidence files')
PY
