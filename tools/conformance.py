#!/venv/bin/python
'''Run the storage conformance checks (fake plyvel vs real LevelDB); exit 2 on any difference.'''
import os, sys, time
sys.path.insert(0, os.path.dirname(os.path.dirname(os.path.abspath(__file__))))
from vf import common
common.setup_imports()
from vf import conformance
t = time.time()
try:
    n = conformance.differential()
    m = conformance.pipeline_on_real_leveldb()
except common.Broken as e:
    print('CONFORMANCE BROKEN:', e)
    sys.exit(2)
print(f'storage conformance ok: {n} operation sequences, {m} pipeline runs on real LevelDB, {time.time()-t:.1f}s')
