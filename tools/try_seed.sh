#!/bin/sh
# usage: tools/try_seed.sh <seed dir> <prop> [tier]
# Apply a seeded change to a scratch worktree of /repo HEAD (outside /repo and /verif), run the check on it
# (VERIF_REPO), remove the worktree.  /repo itself is never touched, so this can run next to anything else.
d=$(readlink -f $1); p=$2; t=${3:-quick}; wt=/tmp/try-$(basename $d)-$$
cd /verif
git -C /repo worktree add -q --detach $wt HEAD || exit 9
if ! git -C $wt apply --check "$d/patch.diff" 2>/dev/null; then echo "PATCH DOES NOT APPLY: $d"; git -C /repo worktree remove --force $wt; exit 3; fi
git -C $wt apply "$d/patch.diff"
VERIF_REPO=$wt ./check $p --tier $t > /tmp/try_seed_$$.out 2>&1; code=$?
git -C /repo worktree remove --force $wt
grep -c "^VIOLATION" /tmp/try_seed_$$.out | sed "s/^/violations printed: /"
grep "^VIOLATION" -A2 /tmp/try_seed_$$.out | head -${LINES_SHOWN:-7} | cut -c1-400
tail -1 /tmp/try_seed_$$.out | cut -c1-300
rm -f /tmp/try_seed_$$.out
echo "exit=$code"
