#!/bin/sh
# usage: tools/try_seed.sh <seed dir> <prop> [tier]   -- apply a seeded change to /repo, run the check, undo.
d=$1; p=$2; t=${3:-quick}
cd /verif
if ! git -C /repo apply --check "$d/patch.diff" 2>/dev/null; then echo "PATCH DOES NOT APPLY: $d"; exit 3; fi
git -C /repo apply "$d/patch.diff"
./check $p --tier $t > /tmp/try_seed.out 2>&1; code=$?
git -C /repo checkout -- .
grep -c "^VIOLATION" /tmp/try_seed.out | sed "s/^/violations printed: /"
grep "^VIOLATION" -A2 /tmp/try_seed.out | head -${LINES_SHOWN:-7} | cut -c1-400
tail -1 /tmp/try_seed.out | cut -c1-300
echo "exit=$code"
