#!/usr/bin/env python3
'''Hand-written mutants (small, realistic, suite-preserving) run against the owning checks in a
scratch worktree outside /repo and /verif.  usage: tools/mutants.py [name ...]
Prints one line per mutant: name | check | suite | exit code | first violation key.
Semantics-preserving refactors (expected: silent) are marked with check suffix '='.'''
import os
import subprocess
import sys

WT = '/tmp/repo-mut-%d' % os.getpid()
M = [
    # name, file, old, new, check
    ('collision-skip-hash-for-2', 'electrumx/server/block_processor.py',
     'if len(candidates) > 1:', 'if len(candidates) > 2:', 'C01'),
    ('lookup-first-candidate', 'electrumx/server/db.py',
     '                    if fs_hash == tx_hash:\n                        return hashX, idx_packed + tx_num_packed',
     '                    if fs_hash == tx_hash or True:\n                        return hashX, idx_packed + tx_num_packed', 'C08'),
    ('deletes-after-adds', 'electrumx/server/db.py',
     '            for key in sorted(flush_data.deletes):\n                batch_delete(key)\n            flush_data.deletes.clear()\n',
     '', 'C01'),
    ('limit-off-by-one', 'electrumx/server/history.py',
     '                if limit == 0:\n                    return\n                tx_num, = unpack_le_uint64(tx_numb + bytes(3))\n                yield tx_num\n                limit -= 1',
     '                tx_num, = unpack_le_uint64(tx_numb + bytes(3))\n                yield tx_num\n                limit -= 1\n                if limit == 0:\n                    return', 'C02'),
    ('backup-inputs-not-reversed', 'electrumx/server/block_processor.py',
     'for txin in reversed(tx.inputs):', 'for txin in tx.inputs:', 'C03'),
    ('history-backup-bisect-right', 'electrumx/server/history.py',
     'idx = bisect_left(a, tx_count)', 'idx = bisect.bisect_right(a, tx_count)', 'C03'),
    ('tx-counts-not-popped', 'electrumx/server/block_processor.py',
     '        self.db.tx_counts.pop()\n', '        pass\n', 'C03'),
    ('reorg-range-off-by-one', 'electrumx/server/block_processor.py',
     '            start = (height - count) + 1', '            start = (height - count) + 1 if count != 2 else height - count', 'C03'),
    ('batch-not-transactional', 'electrumx/server/storage.py',
     'transaction=True,', 'transaction=False,', 'C04'),
    ('state-outside-batch', 'electrumx/server/db.py',
     '            self.state = flush_data.state.copy()\n            self.write_utxo_state(batch)\n\n    def flush_backup',
     '            self.state = flush_data.state.copy()\n        self.write_utxo_state(self.utxo_db)\n\n    def flush_backup', 'C04'),
    ('history-flushed-after-utxo', 'electrumx/server/db.py',
     '        # Then history\n        self.flush_history()\n        flush_data.state.flush_count = self.history.flush_count\n\n        # Flush state last as it reads the wall time.\n        if flush_utxos:\n            self.flush_utxo_db(flush_data)\n',
     '        flush_data.state.flush_count = self.history.flush_count + 1\n        if flush_utxos:\n            self.flush_utxo_db(flush_data)\n        self.flush_history()\n', 'C04'),
    ('tx-counts-read-whole-file', 'electrumx/server/db.py',
     '        size = (self.state.height + 1) * 8\n        tx_counts = self.tx_counts_file.read(0, size)\n        assert len(tx_counts) == size',
     '        size = (self.state.height + 1) * 8\n        tx_counts = self.tx_counts_file.read(0, -1)\n        tx_counts = tx_counts[:max(size, len(tx_counts) // 8 * 8)]', 'C04'),
    ('backup-no-flush-count-bump', 'electrumx/server/history.py',
     "        # Not certain this is needed, but it doesn't hurt\n        self.flush_count += 1\n", '', 'C05='),
    ('flush-if-safe-ignores-ok', 'electrumx/server/block_processor.py',
     '        if self.ok:\n            logger.info(\'flushing to DB for a clean shutdown...\')',
     '        if True:\n            logger.info(\'flushing to DB for a clean shutdown...\')', 'C06'),
    ('advance-not-shielded', 'electrumx/server/block_processor.py',
     '        return await asyncio.shield(run_locked())', '        return await run_locked()', 'C06'),
    ('skip-mempool-status-recheck', 'electrumx/server/session.py',
     'if touched or (height_changed and self.mempool_statuses):', 'if touched:', 'C07'),
    ('on-block-before-flush', 'electrumx/server/block_processor.py',
     "        await self.run_with_lock(self.flush(True))\n        if self.caught_up:\n            # Flush everything before notifying as client queries are performed on the DB\n            await self.notifications.on_block(self.touched, self.state.height)\n            self.touched = set()",
     "        if self.caught_up:\n            await self.notifications.on_block(self.touched, self.state.height)\n            self.touched = set()\n        await self.run_with_lock(self.flush(True))\n        if False:\n            pass", 'C07'),
    ('touched-not-reset-copy', 'electrumx/server/mempool.py',
     '                await self.api.on_mempool(touched, height)\n                touched = set()',
     '                await self.api.on_mempool(set(), height)\n                touched = set()', 'C08'),
    ('unconfirmed-flag-from-inpairs', 'electrumx/server/mempool.py',
     'has_ui = any(hash in self.txs for hash, idx in tx.prevouts)', 'has_ui = any(hash in self.txs for hash, idx in tx.prevouts[:1])', 'C08'),
    ('no-dbsync-check', 'electrumx/server/mempool.py',
     '        if mempool_height != self.api.db_height():\n            raise DBSyncError\n', '', 'C09'),
    ('merkle-cache-not-cleared', 'electrumx/server/session.py',
     '            self._tx_hashes_cache.clear()\n            self._merkle_cache.clear()', '            self._tx_hashes_cache.clear()', 'C11'),
    ('tx-hashes-cache-not-cleared', 'electrumx/server/session.py',
     '            self._tx_hashes_cache.clear()\n            self._merkle_cache.clear()', '            self._merkle_cache.clear()', 'C10'),
    ('proof-range-strict', 'electrumx/server/session.py',
     'if not height <= cp_height <= max_height:', 'if not height <= cp_height < max_height:', 'C11'),
    ('header-cache-not-truncated', 'electrumx/server/db.py',
     '        self.header_mc.truncate(height + 1)', '        pass', 'C11'),
    ('truncate-keeps-partial-segment', 'electrumx/lib/merkle.py',
     '        length = self._leaf_start(length)\n        self.length = length', '        self.length = length\n        length = self._leaf_start(length)', 'C12'),
    ('iter-txs-misses-struct-error', 'electrumx/server/block_processor.py',
     '            except (AssertionError, IndexError, struct_error):\n                pass\n\n            if count == tx_count:',
     '            except (AssertionError, IndexError):\n                pass\n\n            if count == tx_count:', 'C13'),
    ('compaction-put-before-delete', 'electrumx/server/history.py',
     '            for key in keys_to_delete:\n                batch.delete(key)\n            for key, value in write_items:\n                batch.put(key, value)',
     '            for key, value in write_items:\n                batch.put(key, value)\n            for key in keys_to_delete:\n                batch.delete(key)', 'C14'),
    ('undo-prune-one-too-many', 'electrumx/server/db.py',
     '            if height >= min_height:\n                break', '            if height > min_height:\n                break', 'C15'),
    ('tx-hash-any-length', 'electrumx/server/session.py',
     "        raw_hash = hex_str_to_hash(value)\n        if len(raw_hash) == 32:\n            return raw_hash\n    except (ValueError, TypeError):\n        pass\n    raise RPCError(BAD_REQUEST, f'{value} should be a transaction hash')",
     "        raw_hash = hex_str_to_hash(value)\n        return raw_hash\n    except ValueError:\n        pass\n    raise RPCError(BAD_REQUEST, f'{value} should be a transaction hash')", 'C16'),
    ('headers-not-clipped', 'electrumx/server/session.py',
     '        max_count = min(count, max_size)', '        max_count = min(count, max_size + 1)', 'C17'),
    ('no-backoff-reset-after-failover', 'electrumx/server/daemon.py',
     '            if retry == self.max_retry and self.failover():\n                retry = 0',
     '            if retry == self.max_retry and self.failover():\n                pass', 'C18'),
    ('vector-results-sorted-by-id', 'electrumx/server/daemon.py',
     "                return [item['result'] for item in result]", "                return [item['result'] for item in sorted(result, key=lambda i: str(i['id']))]", 'C18'),
    ('three-per-bucket', 'electrumx/server/peers.py',
     '            peers.update(bucket_peers[:2])', '            peers.update(bucket_peers[:3])', 'C19'),
    ('stale-peers-advertised', 'electrumx/server/peers.py',
     "                  if peer.last_good > cutoff\n                  and not peer.bad and peer.is_public]",
     "                  if peer.last_good\n                  and not peer.bad and peer.is_public]", 'C19'),
    ('notify-at-lowest-common', 'electrumx/server/controller.py',
     '            height = max(common)', '            height = min(common)', 'C20'),
    ('notify-without-mempool', 'electrumx/server/controller.py',
     '        elif self._highest_block in tmp:\n            height = self._highest_block',
     '        elif self._highest_block in tmp or self._highest_block in tbp:\n            height = self._highest_block\n            tmp.setdefault(height, set())', 'C20'),
    # refactors that preserve behaviour: must stay silent
    ('refactor-touched-union', 'electrumx/server/controller.py',
     '            touched.update(tbp.pop(old))', '            touched |= tbp.pop(old)', 'C20='),
    ('refactor-sorted-adds', 'electrumx/server/db.py',
     '            for key, value in flush_data.adds.items():', '            for key, value in sorted(flush_data.adds.items()):', 'C01='),
    ('refactor-fs-write-order', 'electrumx/server/db.py',
     "        offset = height_start * 80\n        self.headers_file.write(offset, b''.join(flush_data.headers))\n        flush_data.headers.clear()\n",
     "        offset = prior_tx_count * 32\n        self.hashes_file.write(offset, hashes)\n        offset = height_start * 80\n        self.headers_file.write(offset, b''.join(flush_data.headers))\n        flush_data.headers.clear()\n", 'C04='),
    ('refactor-fs-write-order-c01', 'electrumx/server/db.py',
     "        offset = height_start * 80\n        self.headers_file.write(offset, b''.join(flush_data.headers))\n        flush_data.headers.clear()\n",
     "        offset = prior_tx_count * 32\n        self.hashes_file.write(offset, hashes)\n        offset = height_start * 80\n        self.headers_file.write(offset, b''.join(flush_data.headers))\n        flush_data.headers.clear()\n", 'C01='),
    ('refactor-polling-delay-3', 'electrumx/server/block_processor.py',
     '    polling_delay = 5\n', '    polling_delay = 3\n', 'C07='),
    ('refactor-polling-delay-3-c06', 'electrumx/server/block_processor.py',
     '    polling_delay = 5\n', '    polling_delay = 3\n', 'C06='),
    ('refactor-polling-delay-3-c09', 'electrumx/server/block_processor.py',
     '    polling_delay = 5\n', '    polling_delay = 3\n', 'C09='),
    ('refactor-mempool-refresh-7', 'electrumx/server/mempool.py',
     'refresh_secs=5.0,', 'refresh_secs=7.0,', 'C08='),
    ('refactor-mempool-refresh-7-c10', 'electrumx/server/mempool.py',
     'refresh_secs=5.0,', 'refresh_secs=7.0,', 'C10='),
    ('refactor-peers-sorted', 'electrumx/server/peers.py',
     '        for peer in recent:\n            if peer.is_tor:\n                onion_peers.append(peer)',
     '        for peer in sorted(recent, key=lambda p: p.host):\n            if peer.is_tor:\n                onion_peers.append(peer)', 'C19='),
    ('refactor-history-unsorted-flush', 'electrumx/server/history.py',
     '            for hashX in sorted(unflushed):\n                key = hashX + flush_id',
     '            for hashX in unflushed:\n                key = hashX + flush_id', 'C02='),
    ('refactor-history-unsorted-flush-c04', 'electrumx/server/history.py',
     '            for hashX in sorted(unflushed):\n                key = hashX + flush_id',
     '            for hashX in unflushed:\n                key = hashX + flush_id', 'C04='),
    ('refactor-daemon-retry-log', 'electrumx/server/daemon.py',
     "            if retry == self.max_retry and self.failover():\n                retry = 0",
     "            if retry >= self.max_retry and self.failover():\n                retry = 0", 'C18='),
    ('refactor-history-set-order', 'electrumx/server/history.py',
     '            hashXs = set(hashXs)\n            for hashX in hashXs:', '            hashXs = sorted(set(hashXs), key=lambda h: h or b"")\n            for hashX in hashXs:', 'C02='),
]


def sh(cmd, **kw):
    return subprocess.run(cmd, shell=True, capture_output=True, text=True, **kw)


M += [
    # refactors added with the seventh wave's oracles (expected silent)
    ('rawtxs-in-sequential-sub-requests', 'electrumx/server/daemon.py',
     "        params_iterable = ((hex_hash, 0) for hex_hash in hex_hashes)\n        txs = await self._send_vector('getrawtransaction', params_iterable,\n                                      replace_errs=replace_errs)\n",
     "        hex_hashes = list(hex_hashes)\n        txs = []\n        for n in range(0, len(hex_hashes), 50):\n            txs += await self._send_vector('getrawtransaction', ((h, 0) for h in hex_hashes[n:n + 50]),\n                                           replace_errs=replace_errs)\n",
     'C18='),
    ('peers-subscribe-local-flag', 'electrumx/server/session.py',
     "        return self.peer_mgr.on_peers_subscribe(self.is_tor())",
     "        from_tor = bool(self.is_tor())\n        return self.peer_mgr.on_peers_subscribe(from_tor)", 'C19='),
    ('mempool-label-in-a-local', 'electrumx/server/mempool.py',
     "                await self.api.on_mempool(touched, height)",
     "                label = height\n                await self.api.on_mempool(touched, label)", 'C09='),
    ('forced-reorg-count-clamped-to-height', 'electrumx/server/block_processor.py',
     "            start = (height - count) + 1",
     "            count = min(count, height)\n            start = (height - count) + 1", 'C15='),
    ('headers-subscribe-copy-of-cached', 'electrumx/server/session.py',
     "        return self.session_mgr.hsub_results",
     "        return dict(self.session_mgr.hsub_results)", 'C07='),
]


def main():
    names = set(sys.argv[1:])
    if not os.path.isdir(WT):
        r = sh(f'git -C /repo worktree add -q --detach {WT} HEAD')
        if r.returncode:
            print(r.stderr)
            sys.exit(9)
    sh(f'git -C {WT} checkout -q --detach $(git -C /repo rev-parse HEAD) && git -C {WT} checkout -- .')
    for name, path, old, new, check in M:
        if names and name not in names:
            continue
        full = os.path.join(WT, path)
        src = open(full).read()
        if src.count(old) != 1:
            print(f'{name} | {check} | PATTERN-NOT-UNIQUE ({src.count(old)})')
            continue
        open(full, 'w').write(src.replace(old, new))
        try:
            t = sh(f'cd {WT} && /venv/bin/python -m pytest -q -p no:cacheprovider -x --deselect '
                   f'tests/server/test_compaction.py::test_compaction 2>&1 | tail -1')
            suite = t.stdout.strip()[:40]
            c = sh(f'cd /verif && VERIF_REPO={WT} ./check {check.rstrip("=")} --tier quick')
            key = next((l.strip()[4:90] for l in c.stdout.splitlines() if l.startswith('  key=')), '')
            print(f'{name} | {check} | {suite} | exit={c.returncode} | {key}', flush=True)
        finally:
            open(full, 'w').write(src)
    sh(f'git -C /repo worktree remove --force {WT}')


if __name__ == '__main__':
    main()
