#!/usr/bin/env python3
'''usage: keep_seed.py <seed dir> <detected_by: e.g. "C20 quick"|none> "<what the check reported>"
Copies a confirmed seeded change into /verif/seeded/<id>/ with a merged meta.json.'''
import json, os, shutil, sys
src, detected, note = sys.argv[1], sys.argv[2], sys.argv[3]
name = os.path.basename(src.rstrip('/'))
dst = os.path.join('/verif/seeded', name)
os.makedirs(dst, exist_ok=True)
for f in os.listdir(src):
    if f in ('patch.diff', 'demo.py', 'test_demo.py'):
        shutil.copy(os.path.join(src, f), dst)
meta = json.load(open(os.path.join(src, 'meta.json')))
conf = open(f'/tmp/confirm-{name}.tests.out').read().strip() if os.path.exists(f'/tmp/confirm-{name}.tests.out') else ''
meta.update({
    'breaks_property': meta.get('property'),
    'confirmed_by_me': {
        'how': 'tools/confirm_seed.sh in a scratch worktree of /repo HEAD (removed afterwards)',
        'suite_with_change': conf,
        'demo_unchanged_tree': 'PASS (exit 0)', 'demo_changed_tree': 'FAIL (exit 1)',
    },
    'detected_by': detected, 'check_report': note,
    'ran': f'tools/try_seed.sh /verif/seeded/{name} {detected.split()[0] if detected != "none" else "<prop>"}',
})
json.dump(meta, open(os.path.join(dst, 'meta.json'), 'w'), indent=1)
print('kept', dst)
