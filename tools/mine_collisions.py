#!/venv/bin/python
'''Mine coinbases whose tx hashes share the first 4 bytes (the indexer's compressed-hash prefix).
The nonces are committed in vf/collisions.json; this only re-mines if that file is missing.'''
import json, os, sys
sys.path.insert(0, os.path.dirname(os.path.dirname(os.path.abspath(__file__))))
from vf import chain
path = os.path.join(os.path.dirname(chain.__file__), 'collisions.json')
if os.path.exists(path):
    chain.load_collisions()
    print('collisions.json verified')
else:
    nonces = chain.mine_collisions(3)
    json.dump({'nonces': nonces}, open(path, 'w'))
    print('mined', nonces)
