#!/bin/sh
# usage: tools/confirm_seed.sh <seed dir>  -- independently confirm a seeded change in a scratch worktree:
#   the pinned suite still passes with it, the demo passes without it and fails with it.
d=$1; name=$(basename $d); wt=/tmp/confirm-$name
demo=$d/demo.py; [ -f $demo ] || demo=$d/test_demo.py
git -C /repo worktree add -q --detach $wt HEAD || exit 9
cd $wt
export PYTHONDONTWRITEBYTECODE=1
/venv/bin/python $demo > /tmp/confirm-$name.unchanged.out 2>&1; u=$?
if ! git apply $d/patch.diff; then echo "$name: PATCH DOES NOT APPLY"; cd /; git -C /repo worktree remove --force $wt; exit 3; fi
/venv/bin/python $demo > /tmp/confirm-$name.changed.out 2>&1; c=$?
/venv/bin/python -m pytest -q -p no:cacheprovider --timeout=900 --deselect tests/server/test_compaction.py::test_compaction 2>&1 | tail -1 > /tmp/confirm-$name.tests.out
cd /; git -C /repo worktree remove --force $wt
echo "$name: demo_unchanged_exit=$u demo_changed_exit=$c tests: $(cat /tmp/confirm-$name.tests.out)"
