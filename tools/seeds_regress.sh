#!/bin/sh
# Re-run every kept seeded change against the CURRENT /repo HEAD with the check that is recorded as
# catching it; one scratch worktree per seed (outside /repo and /verif, removed afterwards), so
# /repo itself is never touched.  usage: tools/seeds_regress.sh [parallelism] [seed-name-pattern]
par=${1:-3}; pat=${2:-.}
ls /verif/seeded | grep -E "$pat" | xargs -P $par -n 1 /verif/tools/seed_regress_one.sh
