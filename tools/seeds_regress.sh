#!/bin/sh
# Re-run every kept seeded change against the CURRENT /repo with its owning check; table on stdout.
cd /verif
git -C /repo diff --quiet || { echo "/repo dirty"; exit 9; }
for d in /verif/seeded/*/; do
  n=$(basename $d)
  chk=$(python3 -c "import json; m=json.load(open('$d/meta.json')); db=m.get('detected_by','none'); print(db.split()[0] if db.startswith('C') else m['property'])")
  if ! git -C /repo apply --check $d/patch.diff 2>/dev/null; then echo "$n | $chk | PATCH-DOES-NOT-APPLY"; continue; fi
  git -C /repo apply $d/patch.diff
  ./check $chk --tier quick > /tmp/seedreg_$n.out 2>&1; code=$?
  git -C /repo checkout -- .
  key=$(grep -m1 '^  key=' /tmp/seedreg_$n.out | cut -c7-90)
  echo "$n | $chk | exit=$code | $key"
done
