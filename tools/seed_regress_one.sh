#!/bin/sh
# usage: tools/seed_regress_one.sh <seed name>  (helper of seeds_regress.sh)
cd /verif
d=/verif/seeded/$1
chk=$(python3 -c "import json; m=json.load(open('$d/meta.json')); db=m.get('detected_by','none'); print(db.split()[0] if db.startswith('C') else m['property'])")
wt=/tmp/sreg-$1-$$
git -C /repo worktree add -q --detach $wt HEAD || { echo "$1 | $chk | WORKTREE-FAILED"; exit 0; }
if ! git -C $wt apply --check $d/patch.diff 2>/dev/null; then echo "$1 | $chk | PATCH-DOES-NOT-APPLY"; git -C /repo worktree remove --force $wt; exit 0; fi
git -C $wt apply $d/patch.diff
VERIF_REPO=$wt ./check $chk --tier quick > /tmp/sreg_$1.out 2>&1; code=$?
git -C /repo worktree remove --force $wt
key=$(grep -m1 '^  key=' /tmp/sreg_$1.out | cut -c7-90)
neutral=$(python3 -c "import json; print('(recorded as neutralised)' if 'neutralised_by' in json.load(open('$d/meta.json')) else '')")
echo "$1 | $chk | exit=$code | $key $neutral"
rm -f /tmp/sreg_$1.out
