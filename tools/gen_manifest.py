#!/usr/bin/env python3
'''Regenerate /verif/MANIFEST.json from the table below and validate it against the schema.'''
import json
import os
import subprocess
import sys

VERIF = os.path.dirname(os.path.dirname(os.path.abspath(__file__)))

BASELINE_OFF = ('cd /repo && env -u ELECTRUMX_VERIF /venv/bin/python -m pytest -ra -q '
                '-p no:cacheprovider --timeout=900 --continue-on-collection-errors')

# id: (category, technique, level text, level note, design ref)
_IDX_NOTE = ('Trusted: the fake plyvel stand-in (bound to real LevelDB by the conformance run), '
             'the reference indexer; only the default schedule is used here (schedules: C06/C07).')
_SCHED_NOTE = ('Choice points only where the event loop\'s ready queue is empty (asyncio FIFO order is not a '
               'choice); worker jobs atomic; protocol time-outs (30 s) never fire; scripted daemon; fake '
               'plyvel stand-in.')
CHECKS = {
    'C11': ('exploration',
            'exhaustive enumeration of proofs over chain histories + stateless schedule exploration of proofs in flight across a reorganisation + proof requests served at every slice point of sliced worker jobs (incl. torn reads)',
            'A: four chain histories with blocks of 1..300 transactions (direct and cached merkle path), '
            'also after reorganisations replacing large blocks by other large blocks: every block x '
            'positions x six proof request kinds over the wire must fold to the header\'s merkle root, '
            'every (h <= cp <= tip) header proof to the reference root, everything outside the chain '
            'refused.  B: proof requests in flight while blocks are undone, every choice vector with '
            '<= 1 deviation (thorough: plus one slice of the second level - first deviation a stalled header '
            'read, scenario warm-then-reorg; the full second level is not claimed): a reply is an error or verifies against a chain the daemon had; after '
            'quiescence all proofs verify again.  C: the mutating worker jobs of a reorganisation are '
            'sliced at their storage / file operations and proof requests are served at every slice '
            'point (also with the requests\' own reads torn by the mutation); same oracles.',
            _SCHED_NOTE + ' Part C: preemption inside jobs only at storage / file operations.', '3/C11'),
    'C10': ('exploration',
            'stateless schedule exploration with iterative deviation bounding of the full system + queries served at every slice point of sliced worker jobs, judged at quiescence',
            'The C07 scenario family with cache-populating queries before, during (also while blocks are '
            'undone) and after the events; every choice vector with <= 1 deviation (thorough: 2 on the '
            'scenarios named in the evidence).  At quiescence get_history, get_mempool, get_balance, listunspent for every '
            'watched script and id_from_pos for the top heights, asked by the client that cached and by '
            'a fresh one, must equal the answer implied by the final chain and mempool.  Part B: the '
            'cache-populating queries served at every slice point of every advance_block / '
            'backup_block / flush_dbs job of nine scenarios.',
            _SCHED_NOTE + ' Part B: preemption inside jobs only at storage / file operations.', '3/C10'),
    'C07': ('exploration',
            'stateless schedule exploration with iterative deviation bounding of the full system (block processor, mempool, notifications, sessions, clients) + subscriptions served at every slice point of sliced worker jobs',
            'Seventeen scenarios (mempool entry then confirmation, quick blocks with churn, natural reorgs '
            'returning / reconfirming / dropping txs, forced reorgs, cache-pressure flush, subscribe / '
            'unsubscribe / query races, orphaned parent) with real client sessions over the wire and a '
            'scheduled daemon; every choice vector with <= 1 deviation, thorough: 2 on the scenarios named in the evidence (event or '
            'timer overtaking, younger first, hold/release, stall/arrive).  At quiescence every held '
            'status and header is judged against the protocol definition; real Notifications call '
            'sequences are checked against C20\'s environment automaton.  Part B: subscriptions (also by '
            'a client connecting at that moment) served at every slice point of every mutating worker '
            'job of nine scenarios.',
            _SCHED_NOTE + ' Part B: preemption inside jobs only at storage / file operations.', '3/C07'),
    'C09': ('exploration',
            'stateless schedule exploration with iterative deviation bounding (CHESS style) of the real mempool tracker in the full system',
            'Scenarios (synchronised mempool, new mempool, one daemon event: block with/without the index '
            'catching up or flushing, eviction, arrival, reorg) with a scheduled daemon; the event, timers, '
            'younger replies and hold/release of slow replies or jobs are placed at every quiescent point '
            'of the refresh with at most 1 (quick) / 2 (thorough) deviations; invariants on the tracker at '
            'every point, task liveness, the C08 oracle after the following quiet refreshes, and every '
            'changed script reported touched in between.  Part B: a whole refresh served at every slice '
            'point of the block processor\'s worker jobs.',
            _SCHED_NOTE + ' Part B: preemption inside jobs only at storage / file operations.', '3/C09'),
    'C08': ('exploration',
            'exhaustive bounded enumeration of mempool state sequences on the real tracker in the full system',
            'A 7-transaction universe (child, grandchild, mixed inputs, generation-like input, several '
            'outputs to one script, spend of a prefix-colliding output) over a really indexed chain; '
            'all sequences of up to 2/3 daemon states with optional confirming blocks x delivery order '
            'x fetch batching; every refresh that completes on a stable daemon - the first included - '
            'is compared with the mempool reference, and the touched sets with the gained/lost scripts.',
            'Chunking helper replaced by an explorer-controlled partitioner; atomic daemon state '
            'changes (races are C09); fake plyvel stand-in.', '3/C08'),
    'C17': ('exploration',
            'exhaustive enumeration of header-range triples and of MAX_SEND x history-length configurations over the wire',
            'On a really indexed chain of 2,020 blocks: block.headers for every (start, count, cp) around '
            '0, the 2016 cap and the chain end, checked against the reference headers and merkle '
            'proofs; get_history / subscribe cold and cached for histories of limit-1..limit+2 entries '
            'under six MAX_SEND settings and three request orders; a subscribed history outgrowing '
            'the limit; history reads in flight across a block (made after it / made before and handed '
            'over after it).  A reply is the complete history or the error, never a truncation.',
            'Exactly at the derived limit either outcome is accepted if consistent; fake plyvel stand-in.',
            '3/C17'),
    'C16': ('exploration',
            'exhaustive enumeration of method x argument tuples over a JSON alphabet, over the wire into real sessions',
            'All 24 protocol methods x the full product of a 60-value index-aware JSON alphabet for '
            'arity 0..2, reduced alphabets for arity 3 and 4, too many arguments and by-name forms, '
            'as JSON bytes through RSTransport into a real ElectrumX session with a second subscribed '
            'client: never INTERNAL_ERROR, exactly one reply, refused requests leave subscriptions '
            'untouched and caches only gain correct entries; differential run for the other client; '
            'also without a handshake, with protocol 1.4, and against a server with DROP_CLIENT set.',
            'aiorpcx JSON-RPC layer trusted; cost limits disabled so throttling does not interfere; '
            'cache checks read SessionManager cache attributes (named by the property).', '3/C16'),
    'C06': ('exploration',
            'stateless schedule exploration with sliced worker jobs: every cancellation instant x after-cancel interleavings up to a preemption bound',
            'Ten scenario shapes (three with a daemon whose every answer is a scheduler step); the stop (shutdown_event + task cancellation) is placed at every '
            'scheduler step at storage/file-operation granularity, i.e. also in the middle of worker '
            'jobs, and every interleaving of loop callbacks and job slices afterwards is explored with '
            'at most 2 (quick) / 3 (thorough) non-default choices; the database left behind is reopened '
            'and compared with the reference index; finished blocks must be included.',
            'Preemption inside jobs only at storage/file operations; no timers fire after the stop; '
            'fake plyvel stand-in.', '3/C06'),
    'C14': ('fault_enumeration',
            'exhaustive enumeration of compaction runs x stop/kill points x continuations on really indexed databases',
            'Three really indexed history databases x row size {1,2,3,12500} x batch limit x {the real '
            'tool coroutine in one go; stop after batch k and resume (every k); abandon after batch k '
            'then server; die before the flush-count copy then tool / server} x {index more blocks; '
            'reorg; server-tool-server}: tx numbers of every script hash unchanged at every stop '
            'point and reopen, histories equal to the reference after further blocks / reorg.',
            'A compaction batch is one atomic LevelDB batch; continuations that keep indexing after an '
            'unfinished compaction only inside the property\'s carve-out.', '3/C14'),
    'C15': ('exploration',
            'exhaustive bounded enumeration of reorg limits x sync trajectories x restarts x fork depths on the real block processor',
            'Reorg limit in {1,2,3,5,50} x daemon extension at every n-th scheduler step of the sync '
            '(or block by block) x clean restart x natural/forced reorg of depth limit-1, limit, '
            'limit+1: within the window the reorg must succeed and equal the reference and a fresh '
            'server; beyond it it may only stop with the no-undo-information error leaving an exact '
            'index; after a restart no undo row lies below the window.',
            _IDX_NOTE + ' Undo rows are recognised by their key format (the property names this '
            'observation point).', '3/C15'),
    'C19': ('exploration',
            'exhaustive enumeration of peer populations x shuffle outcomes and of feature dictionaries',
            'Product of per-slot peer states (shared /16 and /56 buckets, private addresses, resolved '
            'and unresolved host names, up to 60 onion peers, own identities) x requester kind, each '
            'under every shuffle outcome of small buckets, through the real on_peers_subscribe; '
            'every host x port-pair of a JSON alphabet through Peer.peers_from_features; every sequence '
            'of peer-life events (re-verification through the real _verify_peer against a scripted '
            'remote, clock, subscribe) up to depth 4 / 5.',
            'aiorpcx hostname validation trusted; independent hostname check deliberately lenient; '
            'fixed clock.', '3/C19'),
    'C18': ('exploration',
            'exhaustive enumeration of fault sequences on the real Daemon with a scripted HTTP session, virtual clock',
            'Every fault sequence over a 7-letter alphabet (plus faults after k streamed chunks) up '
            'to the length bound x 1..3 URLs x three back-off ladders x 13 call variants, plus long '
            'runs crossing two fail-overs; observed URL trajectory compared with a reference automaton '
            'of the documented policy, results with a fake bitcoind, the block file byte for byte.',
            'aiohttp replaced by a scripted session; bitcoind answers batches in order.', '3/C18'),
    'C13': ('exploration',
            'exhaustive enumeration of tx shapes x truncation points and of block shapes x every chunk size',
            'Transaction shapes over every varint-width boundary (counts, script lengths) and extreme '
            'field values through the real Deserializer/Tx.serialize, hash over exactly the consumed '
            'bytes, every proper prefix must fail (all prefixes up to 1 KB, field boundaries above); 8 '
            'block shapes x every chunk size through real OnDiskBlock files, forward and reverse.',
            'Transactions are built by an independent serializer; truncation of large transactions and '
            'chunk sizes of the 300-tx block above 3 x tx size are strided (caps reported).', '3/C13'),
    'C05': ('fault_enumeration',
            'crash-point enumeration over the effect log of recorded reorganisations x continuation chains',
            'Natural (depth 1..3) and forced (n = 1..3) reorganisations are recorded; every prefix '
            'of the effect log from the first backup_block through re-indexing to catch-up (incl. '
            'between the history rollback commit and the UTXO rollback commit, and torn file writes) '
            'is restarted with the daemon on the new branch / back on the old branch / unchanged; '
            'after catch-up the index must equal the reference and a fresh real server.',
            'Crash = process death; fork depth within the reorg limit and the height >= 2 x depth '
            'carve-out; one known finding (F8) recorded in known_findings.json.', '3/C05'),
    'C04': ('fault_enumeration',
            'crash-point enumeration over the durable-effect log (every prefix, torn writes, '
            'crash during recovery), real code re-opened on every post-crash image',
            'Each scenario is recorded once; for every prefix of its effect log (file create/write/'
            'remove, DB batch, DB put), every torn prefix of the write in progress and every prefix '
            'of the recovery\'s own writes, fresh real objects open the image: the height must be a '
            'committed one not below the last completed flush, all observables must equal the '
            'reference at that height, and the resumed sync must end like the uninterrupted run '
            '(observables and the undo window); an exception in the middle of building a batch.',
            'Crash = process death (no power-loss model); LevelDB batches/puts atomic; first-time '
            'database creation excluded (not "during block processing or a flush").', '3/C04'),
    'C03': ('exploration',
            'exhaustive bounded enumeration of fork histories on the real block processor, '
            'differential against a fresh real server',
            'Base tails x fork depth 1..3 x branch recipes (replay / conflict with orphaned txs) x '
            'flush schedules x reorg limits x event shapes (single, back-to-back, equal/shorter then '
            'extension, forced reorgs unchanged/extended/silently switched, fork discovered at every '
            'scheduler step of a batch); every observable incl. header proofs and the raw tables '
            'compared with the reference indexer and with a fresh server that only saw the final chain; '
            'the whole index is read before the reorganisation; server restarted before it; forks of '
            'depth 6..7 on a longer chain.',
            _IDX_NOTE, '3/C03'),
    'C01': ('exploration',
            'exhaustive bounded enumeration of chains x flush schedules on the real sync pipeline',
            'Every recipe sequence up to the length bound x every per-block flush directive (none, '
            'history-only, full) x prefetch limits x reorg limits, plus fixed scenarios (prefix-'
            'collision triple in every order, 262 flushes, a 253-tx block, coinbases touching no '
            'script, a 65,540-output transaction, tiny physical files), each synced through the '
            'real fetch_and_process_blocks under a hand-stepped loop; all UTXO observables compared '
            'with a reference indexer after every full flush and at catch-up.', _IDX_NOTE, '3/C01'),
    'C02': ('exploration',
            'exhaustive bounded enumeration of chains x flush schedules on the real sync pipeline',
            'Same enumeration as C01 with the history oracle: limited_history for every script and '
            'every limit around the length, fs_tx_hash for every tx number, per-block tx hashes.',
            _IDX_NOTE, '3/C02'),
    'C12': ('model_checking',
            'explicit-state BFS over the real MerkleCache + exhaustive input enumeration',
            'Every list length up to the bound with every index, classic and TSC, every cached-'
            'level depth, against a textbook merkle tree; branch_length on every power-of-two '
            'boundary to 2^62; all initialise/extend/truncate/reorg sequences of the real '
            'MerkleCache explored as a state graph to a fixpoint or depth bound, every (length, '
            'index) query compared with a from-scratch computation in every state; every interleaving '
            'of the source reads of concurrent lookups with a truncate or a source change.',
            'Trusted: SHA-256 collision freedom on the generated leaves; the hash source is '
            'consistent between two calls unless the scenario changes it.', '3/C12'),
    'C20': ('model_checking',
            'explicit-state BFS, real Notifications object composed with an environment automaton',
            'All call sequences the block processor / mempool tracker / start-up can produce '
            '(heights 0..3 quick, 0..4 thorough) explored to a fixpoint in six phases (rising, falling '
            'daemon, empty sets, slow notify callback = calls in flight); oracle 1 on every notify '
            'call, no-loss oracle via quiescence closings from every reachable state, refresh at the '
            'reported height notified at once.',
            'Environment automaton is an abstraction of block processor and mempool tracker; it is '
            'bound to the code by C07 which checks real full-system call sequences against it. '
            'Daemon height non-decreasing except in the falling phases.', '3/C20'),
}

NOT_YET = {
}

NOT_APPLICABLE = {
}


def main():
    props = [json.loads(l)['id'] for l in open(os.path.join(VERIF, 'properties.jsonl'))]
    checks = []
    for pid in props:
        if pid not in CHECKS:
            continue
        cat, tech, text, note, ref = CHECKS[pid]
        checks.append({
            'property_id': pid,
            'quick_cmd': f'./check {pid} --tier quick',
            'thorough_cmd': f'./check {pid} --tier thorough',
            'evidence_file': f'/verif/evidence/{pid}.json',
            'replay_cmd_template': f'./check {pid} --replay {{path}}',
            'engine': 'vf',
            'level_claimed': {'category': cat, 'text': text, 'design_ref': f'DESIGN.md section {ref}'},
            'level_note': note,
            'technique': tech,
        })
    na = []
    for pid in props:
        if pid in CHECKS:
            continue
        reason = NOT_APPLICABLE.get(pid) or NOT_YET.get(pid) or \
            'check not built yet in this round (planned: bounded exhaustive exploration, see DESIGN.md section 3)'
        na.append({'property_id': pid, 'reason': reason})
    hooks_commits = []
    manifest = {
        'version': 1,
        'setup_cmd': './setup.sh',
        'hooks': {
            'guard': 'ELECTRUMX_VERIF',
            'enable': 'checks export ELECTRUMX_VERIF=1 and import electrumx from /repo (VERIF_REPO); '
                      'no hook exists in /repo: storage, files, event loop, clock, randomness and '
                      'the daemon are all replaced from outside',
            'baseline_off_cmd': BASELINE_OFF,
            'source_commits': hooks_commits,
            'add_only': True,
        },
        'engines': [
            {'name': 'vf', 'path': '/verif/vf',
             'serves_properties': sorted(CHECKS),
             'kind_free_text': 'hand-written explicit-state / stateless explorers in Python that use '
                               'the real ElectrumX objects as the transition function (controlled '
                               'event loop, fake plyvel under the real storage wrapper, file '
                               'interposition, scripted daemon)'},
        ],
        'checks': checks,
        'not_applicable': na,
        'notes': 'Run with /venv/bin/python; VERIF_REPO selects the tree under test (default /repo); '
                 'exit 2 means the harness itself is broken (vacuous run, non-determinism, '
                 'stand-in/real mismatch). Known findings: /verif/known_findings.json.',
    }
    path = os.path.join(VERIF, 'MANIFEST.json')
    with open(path, 'w') as f:
        json.dump(manifest, f, indent=1)
        f.write('\n')
    code = subprocess.call(['python3-vt', '-c', '''
import json, jsonschema, sys
m = json.load(open("/verif/MANIFEST.json"))
jsonschema.validate(m, json.load(open("/root/.vp/MANIFEST.schema.json")))
print("MANIFEST valid:", len(m["checks"]), "checks,", len(m["not_applicable"]), "not claimed")
'''])
    sys.exit(code)


if __name__ == '__main__':
    main()
