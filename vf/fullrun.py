'''Full-system scenarios (block processor + mempool + notifications + sessions + clients) and the
oracles of C07 (subscribers converge), C10 (answers not stale at quiescence) and C11 (merkle
proofs verify), shared by the three checks.'''
import itertools
import json
from hashlib import sha256

from vf import chain, mpuniverse, reorgrun, system
from vf.chain import SCRIPTS, scripthash_hex, script_hashX
from vf.common import Broken
from vf.oracle import RefIndex

ACT = mpuniverse.ACT
WATCH = ('A', 'B', 'C', 'D', 'S')


def sh(k):
    return scripthash_hex(SCRIPTS[k])


# ---- environment events ---------------------------------------------------------------------------

def E(name, fn):
    return (name, fn)


def set_state(s, blocks=None, names=None):
    u = mpuniverse.universe()
    if blocks is not None:
        s.daemon.add_known(blocks)
        s.daemon.set_chain(blocks)
        s.x_blocks = blocks
        s.x_chains.append(blocks)
    if names is not None:
        s.daemon.set_mempool([u.txs[x] for x in mpuniverse.NAMES if x in names])
        s.x_names = tuple(names)


def ev_state(label, blocks=None, names=None):
    return E(label, lambda s: set_state(s, blocks() if callable(blocks) else blocks, names))


def ev_request(client, method, params, tag=None):
    def f(s):
        c = s.x_clients[client]
        rid = c.request(method, params)
        s.x_requests.append(dict(client=client, method=method, params=params, id=rid, tag=tag,
                                 chains_at_call=len(s.x_chains)))
    return E(f'{client}:{method.split(".")[-1]}', f)


def ev_connect(name):
    '''A new client connects (nothing runs until the scheduler lets it).'''
    def f(s):
        s.x_clients[name] = system.Client(s, name=name)
    return E(f'{name}:connect', f)


def ev_forced_reorg(n):
    return ev_request('rpc', 'reorg', [n])


def ev_cache_pressure(full):
    def f(s):
        s.bp.force_flush_arg = full         # exactly what check_cache_size_loop does
    return E('cache-pressure', f)


# ---- chains -------------------------------------------------------------------------------------

def base_sim():
    return mpuniverse.universe().sim


def extended(confirm_sets, tag=b''):
    '''base + one block per set of universe txs.'''
    u = mpuniverse.universe()
    sim = u.sim.copy(tag)
    for names in confirm_sets:
        u.block_with(sim, names)
    return sim.blocks


def extended_burn():
    '''base + one block whose only transaction is a coinbase paying an unspendable script.'''
    u = mpuniverse.universe()
    sim = u.sim.copy(b'')
    sim.add_block([sim.cb('F')], 'burn')
    return sim.blocks


def forked(depth, branch_sets, tag=b'Y', over=None):
    '''Fork `depth` below the tip of `over` (default base) and grow blocks holding the named txs.'''
    u = mpuniverse.universe()
    over = over or u.sim.blocks
    stem = reorgrun._resim(over[:len(over) - depth], tag)
    for names in branch_sets:
        txs = [u.txs[n] for n in mpuniverse.NAMES if n in names]
        stem.add_block([stem.cb()] + [t for t in txs if stem.valid(t) or True], 'fork')
    return stem.blocks


# ---- scenarios ------------------------------------------------------------------------------------

def make(scn, immediate=False):
    u = mpuniverse.universe()
    s = system.System(reorg_limit=5, activation=ACT, immediate_daemon=immediate)
    s.x_chains = []
    s.x_requests = []
    set_state(s, u.sim.blocks, scn.get('mempool0', ()))
    s.boot(u.sim.blocks, [u.txs[x] for x in mpuniverse.NAMES if x in scn.get('mempool0', ())])
    s.x_clients = {}
    for name in scn.get('clients', ('c1', 'c2')):
        c = s.connect(name=name)
        c.call('server.version', [name, '1.4.2'])
        s.x_clients[name] = c
    s.x_clients['rpc'] = s.connect(rpc=True, name='rpc')
    s.x_subs = {}
    for name, keys in scn.get('subs', {'c1': WATCH, 'c2': ('A', 'D')}).items():
        c = s.x_clients[name]
        c.call('blockchain.headers.subscribe')
        for k in keys:
            r = c.call('blockchain.scripthash.subscribe', [sh(k)])
            s.x_subs[(name, k)] = True
    for client, method, params in scn.get('warm', ()):
        s.x_clients[client].call(method, params)
    s.run_idle()
    return s


T = 'tick'


def scenarios():
    u = mpuniverse.universe()
    base = u.sim.blocks
    out = {}
    # S1: a tx enters the mempool, then confirms
    out['enter-confirm'] = dict(script=lambda: [
        ev_state('mempool+t6', names=('t6',)), T, T,
        ev_state('block(t6)', blocks=extended([('t6',)]), names=()), T, T, T, T])
    # S2: two blocks in quick succession with mempool churn
    out['two-blocks'] = dict(mempool0=('t1',), script=lambda: [
        ev_state('mempool+t2+t4', names=('t1', 't2', 't4')), T, T,
        ev_state('block(t1)', blocks=extended([('t1',)]), names=('t2', 't4', 't6')),
        ev_state('block(t2,t4)', blocks=extended([('t1',), ('t2', 't4')]), names=('t6',)),
        T, T, T, T])
    # S3: natural reorg; orphaned txs return to the mempool / reconfirm / vanish
    out['reorg-return'] = dict(mempool0=('t1', 't2'), script=lambda: [
        ev_state('block(t1,t2)', blocks=extended([('t1', 't2')]), names=()), T, T,
        ev_state('fork:txs-back-in-mempool', blocks=forked(1, [(), ()], over=extended([('t1', 't2')])),
                 names=('t1', 't2')), T, T, T, T])
    out['reorg-reconfirm'] = dict(mempool0=('t1',), script=lambda: [
        ev_state('block(t1)', blocks=extended([('t1',)]), names=('t2',)), T, T,
        ev_state('fork:reconfirmed', blocks=forked(1, [('t1', 't2'), ()], over=extended([('t1',)])),
                 names=()), T, T, T, T])
    out['reorg-vanish-depth2'] = dict(script=lambda: [
        ev_state('fork2:conflict', blocks=forked(2, [('t6',), (), ('t7',)]), names=()),
        T, T, T, T])
    # two orphaned blocks touching DIFFERENT scripts (t6: A only; t7: C and D), txs vanish
    out['reorg-depth2-distinct-scripts'] = dict(mempool0=('t6', 't7'), script=lambda: [
        ev_state('block(t6)', blocks=extended([('t6',)]), names=('t7',)), T,
        ev_state('block(t7)', blocks=extended([('t6',), ('t7',)]), names=()), T, T, T,
        ev_state('fork2:txs-vanish', blocks=forked(2, [(), (), ()], over=extended([('t6',), ('t7',)])),
                 names=()), T, T, T, T])
    # S4: forced reorgs
    out['forced-unchanged'] = dict(warm=[('c2', 'blockchain.scripthash.get_history', [sh('B')])],
                                   script=lambda: [
        ev_forced_reorg(1), T, T, T, T])
    out['forced-during-query'] = dict(script=lambda: [
        ev_forced_reorg(2), T,
        ev_request('c2', 'blockchain.scripthash.get_history', [sh('B')], tag='during'),
        ev_request('c2', 'blockchain.transaction.id_from_pos', [7, 1, False], tag='during'),
        T, T, T, T])
    out['forced-switched'] = dict(script=lambda: [
        ev_state('silent-switch', blocks=forked(1, [('t6',)])), ev_forced_reorg(1),
        T, T, T, T, ev_state('longer', blocks=forked(1, [('t6',), ()])), T, T, T, T])
    # a block arrives; while its notification is on its way the daemon switches to another block
    # at the SAME height and the operator forces the reorganisation; the chain stays that high
    out['forced-switch-during-notify'] = dict(mempool0=('t1',), script=lambda: [
        ev_state('block(t1)', blocks=extended([('t1',)]), names=()), T, T,
        ev_state('silent-switch', blocks=forked(1, [('t1', 't6')], over=extended([('t1',)])), names=()),
        ev_forced_reorg(1), T, T, T, T])
    # two reorganisations in a row, by-height queries (they fill the session manager's caches)
    # between them: whatever the first one's clean-up is still doing, the second is not missed
    first = lambda: forked(1, [('t1', 't6'), ()], over=extended([('t1',)]))         # noqa: E731
    out['two-reorgs'] = dict(mempool0=('t1',), script=lambda: [
        ev_state('block(t1)', blocks=extended([('t1',)]), names=()), T, T,
        ev_state('fork-a', blocks=first(), names=()), T, T,
        ev_request('c2', 'blockchain.transaction.id_from_pos', [8, 1, False], tag='during'),
        ev_request('c2', 'blockchain.transaction.id_from_pos', [8, 2, True], tag='during'),
        ev_request('c2', 'blockchain.transaction.id_from_pos', [9, 0, True], tag='during'),
        ev_state('fork-b', blocks=forked(2, [('t6',), (), ()], tag=b'Z', over=first()), names=('t1',)),
        T, T, T, T])
    # S5: cache-pressure flush at an intermediate height while the daemon keeps advancing
    out['pressure-flush'] = dict(mempool0=('t6',), script=lambda: [
        ev_state('block(t6)', blocks=extended([('t6',)]), names=('t1',)),
        ev_cache_pressure(True), T,
        ev_state('block(t1)', blocks=extended([('t6',), ('t1',)]), names=('t7',)), T, T, T, T, T])
    # S6: subscribe / unsubscribe / queries placed among the events
    out['subscribe-race'] = dict(subs={'c1': ('A',), 'c2': ()}, script=lambda: [
        ev_state('mempool+t1', names=('t1',)), T,
        ev_request('c2', 'blockchain.scripthash.subscribe', [sh('B')], tag='sub'),
        ev_request('c2', 'blockchain.scripthash.get_history', [sh('A')]),
        T, ev_state('block(t1)', blocks=extended([('t1',)]), names=()),
        ev_request('c1', 'blockchain.scripthash.unsubscribe', [sh('A')]),
        ev_request('c1', 'blockchain.scripthash.subscribe', [sh('A')], tag='sub'),
        T, T, T, T])
    # the confirmed parent of a mempool tx is orphaned and returns to the mempool: the child's
    # script is touched by nothing, yet its status changes (height 0 -> -1)
    out['parent-unconfirms'] = dict(mempool0=('t1', 't2'), subs={'c1': WATCH, 'c2': ('C',)},
                                    script=lambda: [
        ev_state('block(t1)', blocks=extended([('t1',)]), names=('t2',)), T, T, T,
        ev_state('fork:parent-back-in-mempool', blocks=forked(1, [(), ()], over=extended([('t1',)])),
                 names=('t1', 't2')), T, T, T, T])
    # a subscription whose history read is in flight while a tx paying that script enters
    # the mempool (the client is not registered yet, so no notification corrects the reply)
    out['subscribe-then-mempool'] = dict(subs={'c1': ('A',), 'c2': ()}, script=lambda: [
        ev_request('c2', 'blockchain.scripthash.subscribe', [sh('B')], tag='sub'),
        ev_state('mempool+t1', names=('t1',)), T, T, T, T])
    # a block that touches no script hash at all (coinbase paying only OP_FALSE OP_RETURN)
    out['untouched-block'] = dict(script=lambda: [
        ev_state('burn-block+t6', blocks=extended_burn(), names=('t6',)), T, T, T, T])
    # the only history anybody reads is in flight across the block that changes it; nothing
    # else is cached or subscribed, so no other eviction happens at that notification
    out['lonely-read'] = dict(subs={'c1': (), 'c2': ()}, mempool0=('t1',), no_warm=True,
                              script=lambda: [
        ev_request('c2', 'blockchain.scripthash.get_history', [sh('B')]),
        ev_state('block(t1)', blocks=extended([('t1',)]), names=()), T, T, T, T])
    # the same with a SUBSCRIPTION whose read is in flight (nobody else holds or caches anything)
    out['lonely-subscribe'] = dict(subs={'c1': (), 'c2': ()}, mempool0=('t1',), no_warm=True,
                                   script=lambda: [
        ev_request('c2', 'blockchain.scripthash.subscribe', [sh('B')], tag='sub'),
        ev_state('block(t1)', blocks=extended([('t1',)]), names=()), T, T, T, T])
    # a history read in flight across the block that changes it, then a fresh subscription
    out['late-subscribe'] = dict(subs={'c1': ('A',), 'c2': ()}, mempool0=('t1',), script=lambda: [
        ev_request('c2', 'blockchain.scripthash.get_history', [sh('A')]),
        ev_state('block(t1)', blocks=extended([('t1',)]), names=()), T, T, T, T,
        ev_request('c2', 'blockchain.scripthash.subscribe', [sh('A')], tag='sub'), T])
    # a parent confirms, its child stays unconfirmed (has-unconfirmed-inputs flips to false) and
    # nothing else happens to the child's scripts
    out['child-stays'] = dict(mempool0=('t1',), script=lambda: [
        ev_state('mempool+t2', names=('t1', 't2')), T, T,
        ev_state('block(t1)', blocks=extended([('t1',)]), names=('t2',)), T, T, T, T])
    # one client, two scripts touched by the same block, then a mempool tx touching one of them
    # (two notification passes can overlap: one from the block processor, one from the mempool)
    out['overlapping-passes-a'] = dict(subs={'c1': ('A', 'D'), 'c2': ()}, mempool0=('t1', 't2', 't7'),
                                       script=lambda: [
        ev_state('block(t1,t2,t7)', blocks=extended([('t1', 't2', 't7')]), names=()), T, T,
        ev_state('mempool+t6', names=('t6',)), T, T, T])
    out['overlapping-passes-d'] = dict(subs={'c1': ('A', 'D'), 'c2': ()}, mempool0=('t1', 't2', 't7'),
                                       script=lambda: [
        ev_state('block(t1,t2,t7)', blocks=extended([('t1', 't2', 't7')]), names=()), T, T,
        ev_state('mempool+t3', names=('t3',)), T, T, T])
    # a NEW client connects and subscribes around the block that changes the script
    out['late-connect'] = dict(subs={'c1': ('A',), 'c2': ()}, mempool0=('t1',), script=lambda: [
        ev_state('block(t1)', blocks=extended([('t1',)]), names=()), T, T, T, T,
        ev_connect('c3'),
        ev_request('c3', 'server.version', ['c3', '1.4.2']),
        ev_request('c3', 'blockchain.headers.subscribe', []),
        ev_request('c3', 'blockchain.scripthash.subscribe', [sh('A')], tag='sub'), T, T, T])
    # a new client's headers.subscribe is on its way when the next block arrives: whatever the
    # reply says, the last header the client holds at the end is the tip
    out['late-headers-subscribe'] = dict(subs={'c1': ('A',), 'c2': ()}, mempool0=('t1',), script=lambda: [
        ev_connect('c3'),
        ev_request('c3', 'server.version', ['c3', '1.4.2']),
        ev_request('c3', 'blockchain.headers.subscribe', []),
        ev_state('block(t1)', blocks=extended([('t1',)]), names=()), T, T, T, T])
    return out


# ---- reference ------------------------------------------------------------------------------------

def statuses(ref, names, key):
    '''Acceptable protocol statuses of a script: confirmed part ordered, mempool part any order.'''
    u = mpuniverse.universe()
    script = SCRIPTS[key]
    conf = ref.history(script)
    per, info = mpuniverse.mempool_reference(u, names, ref.blocks)
    mem = [(txid, -1 if unconf else 0) for txid, _fee, unconf in per[script]['summaries']]
    out = set()
    for perm in itertools.permutations(mem):
        s_ = ''.join(f'{t[::-1].hex()}:{h:d}:' for t, h in conf)
        s_ += ''.join(f'{t[::-1].hex()}:{h:d}:' for t, h in perm)
        out.add(sha256(s_.encode()).hexdigest() if s_ else None)
    return out


def judge_c07(run, res):
    s = run.s
    failures = []
    dead = s.check_tasks()
    if dead:
        return [('server-task-ended', dict(tasks=dead))]
    blocks, names = s.x_blocks, s.x_names
    tip = len(blocks) - 1
    if s.db.state.height != tip or bytes(s.db.state.tip) != blocks[-1].hash:
        return [('not-quiescent:index-not-at-daemon-tip', dict(db=s.db.state.height, daemon=tip))]
    if s.mislabelled_reports:
        # the mempool side of a notification is what the daemon listed at that very height
        return [('mempool-reported-under-another-height-than-its-listing',
                 dict(s.mislabelled_reports[0]))]
    ref = RefIndex(blocks, ACT)
    for cname, c in s.x_clients.items():
        if cname == 'rpc':
            continue
        # which scripts is the client subscribed to at the end (by its own request history)?
        subscribed = {}
        id2req = {}
        for m in _sent(c):
            id2req[m['id']] = m
        held = {}
        for m in c.messages:
            if 'method' in m:
                if m['method'] == 'blockchain.scripthash.subscribe':
                    held[m['params'][0]] = m['params'][1]
                elif m['method'] == 'blockchain.headers.subscribe':
                    held['header'] = m['params'][0]
            elif m.get('id') in id2req and 'result' in m:
                req = id2req[m['id']]
                if req['method'] == 'blockchain.scripthash.subscribe':
                    held[req['params'][0]] = m['result']
                    subscribed[req['params'][0]] = True
                elif req['method'] == 'blockchain.scripthash.unsubscribe':
                    subscribed.pop(req['params'][0], None)
                    held.pop(req['params'][0], None)
                elif req['method'] == 'blockchain.headers.subscribe':
                    held['header'] = m['result']
        for key in SCRIPTS:
            if sh(key) not in subscribed or key in ('R', 'F', 'E'):
                continue
            ok = statuses(ref, names, key)
            got = held.get(sh(key), 'never-told')
            res.count('statuses_judged')
            if got not in ok:
                failures.append(('stale-status-at-quiescence',
                                 dict(client=cname, script=key, held=got, acceptable=sorted(map(str, ok)))))
        if 'header' in held:
            h = held['header']
            res.count('headers_judged')
            if h.get('height') != tip or h.get('hex') != blocks[-1].header.hex():
                failures.append(('stale-header-at-quiescence',
                                 dict(client=cname, held_height=h.get('height'), tip=tip)))
        # a notification carrying a height is never written before that block is queryable
        # (a block that WAS queryable and has been undone since is not "before")
        for db_height, m, seen in c.write_log:
            if m.get('method') == 'blockchain.headers.subscribe':
                hh = m['params'][0]['height']
                hdr_hash = chain.dsha(bytes.fromhex(m['params'][0]['hex']))
                was = any(h >= hh and _on_chain_of(s, h, tip, hh, hdr_hash) for h, tip in seen)
                if not was:
                    failures.append(('header-notified-before-block-queryable',
                                     dict(client=cname, height=hh, db_height=db_height)))
    return failures


def _on_chain_of(s, h, tip, hh, hdr_hash):
    '''Is the block (hh, hdr_hash) part of the chain whose block at height h is tip?'''
    for ch in s.x_chains:
        if h < len(ch) and ch[h].hash == tip and ch[hh].hash == hdr_hash:
            return True
    return False


def _sent(client):
    return client.x_sent


def bind_c20(run, res):
    '''Binding of C20's environment automaton to the code.  Every call the real wiring makes on
    the Notifications object must be an event the automaton enables: a block report at h only
    when the flushed index is at h (cu_flush then cu_report); a mempool report at h only for a
    height at which the index has been queryable and not above the daemon (mp_begin captured
    D == H == h).  Also records which automaton event kinds real executions witness.'''
    s = run.s
    ok = True
    ever = {h for h, _t in s.ever_queryable}
    max_daemon = max(len(ch) - 1 for ch in s.x_chains)
    for kind, height, _n, db_h, daemon_h in s.calls_log:
        if kind == 'bp':
            res.distinct('c20_event_kinds', 'cu_flush+cu_report')
            if height != db_h:
                ok = False
        else:
            res.distinct('c20_event_kinds', 'mp_begin+mp_end')
            if height not in ever or height > max_daemon:
                ok = False
    for tr in run.trace:
        if tr == 'J:backup_block':
            res.distinct('c20_event_kinds', 'backup')
        elif tr == 'E:cache-pressure':
            res.distinct('c20_event_kinds', 'bp_flush')
        elif tr.startswith('E:block') or tr.startswith('E:fork') or tr.startswith('E:longer'):
            res.distinct('c20_event_kinds', 'new_block')
        elif tr == 'J:advance_block':
            res.distinct('c20_event_kinds', 'bp_advance')
    res.distinct('c20_event_kinds', 'start')
    if ok:
        res.count('c20_traces_accepted')
    else:
        res.count('c20_traces_rejected')
        res.note_c20 = True
    return ok


# ---- C10: answers at quiescence ----------------------------------------------------------------

def judge_c10(run, res, clients=('c2', 'fresh')):
    s = run.s
    u = mpuniverse.universe()
    dead = s.check_tasks()
    if dead:
        return [('server-task-ended', dict(tasks=dead))]
    blocks, names = s.x_blocks, s.x_names
    tip = len(blocks) - 1
    if s.db.state.height != tip or bytes(s.db.state.tip) != blocks[-1].hash:
        return [('not-quiescent:index-not-at-daemon-tip', dict(db=s.db.state.height, daemon=tip))]
    ref = RefIndex(blocks, ACT)
    per, info = mpuniverse.mempool_reference(u, names, blocks)
    mem_ids = {u.txs[n].txid for n in names}
    mem_spent = {(i[0], i[1]) for n in names for i in u.txs[n].inputs}
    failures = []
    if 'fresh' in clients and 'fresh' not in s.x_clients:
        c = s.connect(name='fresh')
        c.call('server.version', ['fresh', '1.4.2'])
        s.x_clients['fresh'] = c
    for cname in clients:
        c = s.x_clients[cname]
        for key in (WATCH if cname != 'fresh' else WATCH[:2]):
            script = SCRIPTS[key]
            want_conf = [(t[::-1].hex(), h) for t, h in ref.history(script)]
            want_mem = {(t[::-1].hex(), -1 if unconf else 0, fee)
                        for t, fee, unconf in per[script]['summaries']}
            r = c.call('blockchain.scripthash.get_history', [sh(key)])
            res.count('queries_judged')
            got = r.get('result')
            ok = isinstance(got, list)
            if ok:
                # unconfirmed entries carry a fee; a confirmed tx of the genesis block has height 0
                conf = [(e['tx_hash'], e['height']) for e in got if 'fee' not in e]
                mem = {(e['tx_hash'], e['height'], e['fee']) for e in got if 'fee' in e}
                ok = conf == want_conf and mem == want_mem and len(got) == len(conf) + len(mem)
            if not ok:
                failures.append(('stale-get_history', dict(client=cname, script=key,
                                                           got=str(got)[:300], want_confirmed=want_conf[-3:],
                                                           want_mempool=sorted(want_mem))))
            r = c.call('blockchain.scripthash.get_mempool', [sh(key)])
            got = r.get('result')
            res.count('queries_judged')
            if not isinstance(got, list) or {(e['tx_hash'], e['height'], e['fee']) for e in got} != want_mem:
                failures.append(('stale-get_mempool', dict(client=cname, script=key, got=str(got)[:300])))
            r = c.call('blockchain.scripthash.get_balance', [sh(key)])
            res.count('queries_judged')
            want_bal = {'confirmed': ref.balance(script), 'unconfirmed': per[script]['delta']}
            if r.get('result') != want_bal:
                failures.append(('stale-get_balance', dict(client=cname, script=key,
                                                           got=r.get('result'), want=want_bal)))
            r = c.call('blockchain.scripthash.listunspent', [sh(key)])
            res.count('queries_judged')
            want_u = {(t[::-1].hex(), i, h, v) for t, i, v, h in ref.utxos_of(script)
                      if (t, i) not in mem_spent}
            want_u |= {(t[::-1].hex(), pos, 0, v) for t, pos, v in per[script]['utxos']
                       if (t, pos) not in mem_spent}
            got = r.get('result')
            if not isinstance(got, list) or \
                    {(e['tx_hash'], e['tx_pos'], e['height'], e['value']) for e in got} != want_u \
                    or len(got) != len(want_u):
                failures.append(('stale-listunspent', dict(client=cname, script=key, got=str(got)[:300],
                                                           want=sorted(want_u)[:6])))
        for h in range(max(0, tip - (3 if cname != 'fresh' else 0)), tip + 1):
            ids = [t.txid[::-1].hex() for t in blocks[h].txs]
            # first with proofs (these populate and use the per-block caches), then without -
            # the answers must not depend on which queries were made before
            for pos in range(len(ids) + 1):
                r = c.call('blockchain.transaction.id_from_pos', [h, pos, True])
                res.count('queries_judged')
                if pos < len(ids):
                    got = r.get('result')
                    if not isinstance(got, dict) or got.get('tx_hash') != ids[pos]:
                        failures.append(('stale-id_from_pos', dict(client=cname, height=h, pos=pos,
                                                                   merkle=True, got=str(got or r.get('error'))[:200])))
                elif 'error' not in r:
                    failures.append(('id_from_pos-beyond-block-answered', dict(client=cname, height=h,
                                                                               merkle=True)))
            for pos in range(len(ids) + 1):
                r = c.call('blockchain.transaction.id_from_pos', [h, pos, False])
                res.count('queries_judged')
                if pos < len(ids):
                    if r.get('result') != ids[pos]:
                        failures.append(('stale-id_from_pos', dict(client=cname, height=h, pos=pos,
                                                                   got=r.get('result') or r.get('error'))))
                elif 'error' not in r:
                    failures.append(('id_from_pos-beyond-block-answered', dict(client=cname, height=h)))
        r = c.call('blockchain.transaction.id_from_pos', [tip + 1, 0, False])
        if 'error' not in r:
            failures.append(('id_from_pos-beyond-tip-answered', dict(client=cname)))
    # the operator's view of the same data: the LocalRPC `query` command (the limit caps the
    # lines printed, never the balance)
    rpc = s.x_clients.get('rpc')
    for key in (WATCH[:3] if rpc is not None else ()):
        script = SCRIPTS[key]
        conf = [(t[::-1].hex(), h) for t, h in ref.history(script)]
        utx = {(t[::-1].hex(), i, h, v) for t, i, v, h in ref.utxos_of(script)}
        for limit in (1, 2, 1000):
            r = rpc.call('query', [[script.hex()], limit])
            res.count('queries_judged')
            lines = r.get('result')
            bad = None
            if not isinstance(lines, list):
                bad = 'no-result'
            else:
                hist = [l for l in lines if l.startswith('History #')]
                ulines = [l for l in lines if l.startswith('UTXO #')]
                bal = [l for l in lines if l.startswith('Balance:')]
                want_h = [f'height {h:,d} tx_hash {t}' for t, h in conf[:limit]]
                if [l.split(': ', 1)[1] for l in hist] != want_h:
                    bad = 'history-lines'
                got_u = set()
                for l in ulines:
                    w_ = l.replace(',', '').split()
                    got_u.add((w_[3], int(w_[5]), int(w_[7]), int(w_[9])))
                if not bad and (len(ulines) != min(limit, len(utx)) or not got_u <= utx):
                    bad = 'utxo-lines'
                if not bad and (len(bal) != 1 or round(float(bal[0].split()[1].replace(',', '')) * 1e8)
                                != ref.balance(script)):
                    bad = 'balance-line'
            if bad:
                failures.append(('stale-admin-query:' + bad, dict(script=key, limit=limit,
                                                                  got=str(lines)[:300])))
                break
    return failures


def c10_scenarios():
    '''The C07 scenarios with cache-populating queries before, during and after the events.'''
    out = {}
    warm = []
    for k in WATCH:
        warm.append(('c2', 'blockchain.scripthash.get_history', [sh(k)]))
    for pos in (0, 1):
        warm.append(('c2', 'blockchain.transaction.id_from_pos', [7, pos, False]))
        warm.append(('c2', 'blockchain.transaction.id_from_pos', [6, pos, False]))
    for name, scn in scenarios().items():
        scn = dict(scn)
        if scn.get('no_warm'):
            out[name] = scn
            continue
        scn['warm'] = list(scn.get('warm', ())) + warm
        inner = scn['script']

        def script(inner=inner):
            evs = inner()
            during = [ev_request('c2', 'blockchain.scripthash.get_history', [sh('A')], tag='during'),
                      ev_request('c2', 'blockchain.scripthash.get_history', [sh('B')], tag='during'),
                      ev_request('c2', 'blockchain.transaction.id_from_pos', [7, 0, False], tag='during'),
                      ev_request('c2', 'blockchain.transaction.id_from_pos', [8, 1, False], tag='during')]
            # after the first environment event and its first tick; and again before the last ticks
            k = next((i for i, e in enumerate(evs) if e == T), len(evs))
            evs = evs[:k + 1] + during[:3] + evs[k + 1:]
            evs = evs[:-2] + [during[3], during[0]] + evs[-2:]
            return evs
        scn['script'] = script
        out[name] = scn
    return out
