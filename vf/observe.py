'''Observation of an index through its public read paths, and comparison with the reference.'''
from vf.chain import SCRIPTS, script_hashX
from vf.oracle import RefIndex
from vf.world import ReaderBlocked

LIMITS_EXTRA = (None, 0, 1, 2)


class ReadFailed(Exception):
    '''A public read path raised: the index is unreadable (reported as a violation).'''


def observe(w, ref_full, *, isolated=False, what=('utxo', 'hist')):
    try:
        return _observe(w, ref_full, isolated=isolated, what=what)
    except (ReaderBlocked, ReadFailed):
        raise
    except RuntimeError as e:
        if 'coroutine blocked' in str(e):
            raise ReaderBlocked(str(e))
        raise ReadFailed(repr(e))
    except Exception as e:      # noqa
        raise ReadFailed(repr(e))


def _observe(w, ref_full, *, isolated=False, what=('utxo', 'hist')):
    '''Read everything the properties talk about from world w.  ref_full (a RefIndex of the
    longest chain in play) only supplies the universe of scripts / outpoints to ask about.'''
    db = w.db
    run = w.run_isolated if isolated else (lambda c: w.loop.run_coro(c, fire_timers=False))
    st = db.state
    obs = {'state': dict(height=st.height, tip=bytes(st.tip), tx_count=st.tx_count,
                         utxo_count=st.utxo_count, chain_size=st.chain_size)}
    scripts = sorted(set(SCRIPTS.values()) | ref_full.scripts)
    height = st.height
    if 'utxo' in what:
        obs['utxos'] = {}
        for s in scripts:
            utxos = run(db.all_utxos(script_hashX(s)))
            obs['utxos'][s] = sorted((bytes(u.tx_hash), u.tx_pos, u.value, u.height)
                                     for u in utxos)
        outpoints = sorted(ref_full.created)
        res = run(db.lookup_utxos(outpoints))
        obs['lookup'] = dict(zip(outpoints, res))
    if 'hist' in what:
        obs['hist'] = {}
        for s in scripts:
            hx = script_hashX(s)
            full = run(db.limited_history(hx, limit=None))
            full = [(bytes(h), ht) for h, ht in full]
            per_limit = {}
            n = len(full)
            for lim in set(LIMITS_EXTRA) | {n - 1, n, n + 1}:
                if lim is not None and lim < 0:
                    continue
                got = run(db.limited_history(hx, limit=lim))
                per_limit[lim] = [(bytes(h), ht) for h, ht in got]
            obs['hist'][s] = (full, per_limit)
        obs['tx'] = []
        for n in range(st.tx_count + 1):
            try:
                h, ht = db.fs_tx_hash(n)
            except Exception as e:       # noqa
                h, ht = repr(e), None
            obs['tx'].append((bytes(h) if isinstance(h, (bytes, bytearray, memoryview)) else h, ht))
        obs['block_txids'] = []
        for h in range(height + 1):
            obs['block_txids'].append([bytes(x) for x in db.fs_tx_hashes_at_blockheight(h)])
    if 'headers' in what:
        hdrs, n = run(db.read_headers(0, height + 2))
        obs['headers'] = (bytes(hdrs), n)
        obs['block_hashes'] = [bytes(x) for x in run(db.fs_block_hashes(0, height + 1))] \
            if height >= 0 else []
    return obs


def compare(obs, ref, what=('utxo', 'hist')):
    '''Return a list of (field, detail) mismatches between an observation and the reference
    index at the observed height.'''
    bad = []
    st = obs['state']
    want = ref.summary()
    if 'utxo' in what:
        for k in ('height', 'tip', 'tx_count', 'utxo_count', 'chain_size'):
            if st[k] != want[k]:
                bad.append((f'state.{k}', (st[k], want[k])))
        for s, got in obs['utxos'].items():
            exp = ref.utxos_of(s)
            if got != exp:
                bad.append(('utxos', dict(script=s, got=got, want=exp)))
            elif sum(u[2] for u in got) != ref.balance(s):
                bad.append(('balance', dict(script=s)))
        for op, got in obs['lookup'].items():
            exp = ref.utxos.get(op)
            exp = (script_hashX(exp[0]), exp[1]) if exp else None
            got = (bytes(got[0]), got[1]) if got else None
            if got != exp:
                bad.append(('lookup_utxos', dict(outpoint=op, got=got, want=exp)))
    if 'hist' in what:
        for k in ('height', 'tx_count'):
            if st[k] != want[k]:
                bad.append((f'state.{k}', (st[k], want[k])))
        for s, (full, per_limit) in obs['hist'].items():
            exp = ref.history(s)
            if s in ref.unspendable_scripts:
                # A script that also occurs in unspendable outputs: the property does not say
                # whether those count as "paying to it"; accept anything between the two readings.
                loose = ref.hist_loose.get(s, [])
                ok = (len(set(full)) == len(full) and set(exp) <= set(full) <= set(loose)
                      and full == [x for x in loose if x in set(full)])
                if not ok:
                    bad.append(('history-mixed-script', dict(script=s, got=full, want=exp)))
                exp = full
            elif full != exp:
                bad.append(('history', dict(script=s, got=full, want=exp)))
                continue
            for lim, got in per_limit.items():
                e = exp if lim is None else exp[:lim]
                if got != e:
                    bad.append(('history-limit', dict(script=s, limit=lim, got=got, want=e)))
        exp_tx = list(ref.txs)
        for n, (h, ht) in enumerate(obs['tx']):
            if n < len(exp_tx):
                if (h, ht) != exp_tx[n]:
                    bad.append(('fs_tx_hash', dict(tx_num=n, got=(h, ht), want=exp_tx[n])))
            elif h is not None and not isinstance(h, str):
                bad.append(('fs_tx_hash-beyond-end', dict(tx_num=n, got=(h, ht))))
        if obs['block_txids'] != ref.block_txids:
            bad.append(('block_txids', dict(got=obs['block_txids'], want=ref.block_txids)))
    if 'headers' in what:
        exp = b''.join(b.header for b in ref.blocks)
        if obs['headers'] != (exp, len(ref.blocks)):
            bad.append(('headers', dict(got_n=obs['headers'][1], want_n=len(ref.blocks))))
        if obs['block_hashes'] != [b.hash for b in ref.blocks]:
            bad.append(('block_hashes', {}))
    return bad


_REF_CACHE = {}


def ref_at(blocks, height, activation):
    key = (tuple(b.hash for b in blocks[:height + 1]), activation)
    r = _REF_CACHE.get(key)
    if r is None:
        if len(_REF_CACHE) > 512:
            _REF_CACHE.clear()
        r = _REF_CACHE[key] = RefIndex(blocks[:height + 1], activation)
    return r
