'''Shared runner infrastructure: paths, result collection, evidence, known findings, replay
files and the parallel farm.  Every check driver in /verif/checks uses this module.'''

import gc
import hashlib
import json
import multiprocessing
import os
import random
import sys
import time
import traceback

VERIF = os.path.dirname(os.path.dirname(os.path.abspath(__file__)))
REPO = os.environ.get('VERIF_REPO', '/repo')
GUARD = 'ELECTRUMX_VERIF'
NPROC = int(os.environ.get('VERIF_NPROC', '0')) or min(16, os.cpu_count() or 1)
SHM = '/dev/shm' if os.path.isdir('/dev/shm') else '/tmp'

EXIT_OK, EXIT_VIOLATION, EXIT_BROKEN = 0, 1, 2


class Broken(Exception):
    '''The harness itself is broken (vacuous coverage, non-deterministic replay, a stand-in
    that does not conform to the real thing).  Exit code 2; never reported as a violation.'''


def setup_imports():
    '''Make the tree under test importable.  Must run before any electrumx import.'''
    sys.dont_write_bytecode = True
    os.environ[GUARD] = '1'
    if REPO not in sys.path:
        sys.path.insert(0, REPO)
    if VERIF not in sys.path:
        sys.path.insert(0, VERIF)
    import logging
    import warnings
    logging.disable(logging.CRITICAL)
    # executions are abandoned mid-flight (loop closed with tasks pending): the garbage
    # collector's complaints about those coroutines are noise, not results
    warnings.simplefilter('ignore', RuntimeWarning)
    sys.unraisablehook = lambda *a: None


def jsonable(obj):
    if isinstance(obj, (bytes, bytearray, memoryview)):
        return bytes(obj).hex()
    if isinstance(obj, dict):
        return {(k if isinstance(k, str) else json.dumps(jsonable(k))): jsonable(v)
                for k, v in obj.items()}
    if isinstance(obj, (list, tuple)):
        return [jsonable(x) for x in obj]
    if isinstance(obj, (set, frozenset)):
        return sorted((jsonable(x) for x in obj), key=repr)
    if isinstance(obj, (str, int, float, bool)) or obj is None:
        return obj
    return repr(obj)


def digest(obj):
    return hashlib.sha256(json.dumps(jsonable(obj), sort_keys=True).encode()).hexdigest()[:16]


class Violation:
    '''One failing case.  key: structural signature used for known-finding matching and for
    de-duplication of reports.  case: everything --replay needs.  detail: expected/observed.'''

    def __init__(self, key, case, detail):
        self.key = key
        self.case = case
        self.detail = detail

    def to_json(self):
        return {'key': self.key, 'case': jsonable(self.case), 'detail': jsonable(self.detail)}


class _Counters(dict):
    '''A counter never incremented reads as 0 (coverage summaries of runs cut short by
    violations), but .get() and `in` still tell the difference for the coverage guards.'''
    def __missing__(self, key):
        return 0


class Result:
    '''Mergeable accumulator returned by worker tasks.'''

    def __init__(self):
        self.counters = _Counters()
        self.violations = []        # list of Violation (capped per key)
        self.violation_count = 0
        self.by_key = {}
        self.samples = []
        self.sets = {}              # name -> set of hashable (for distinct counts)
        self.notes = []

    def count(self, name, n=1):
        self.counters[name] = self.counters.get(name, 0) + n

    def maxi(self, name, v):
        key = 'max:' + name
        self.counters[key] = max(self.counters.get(key, v), v)

    def distinct(self, name, item):
        self.sets.setdefault(name, set()).add(item)

    def sample(self, item, cap=3):
        if len(self.samples) < cap:
            self.samples.append(jsonable(item))

    def violation(self, key, case, detail):
        self.violation_count += 1
        n = self.by_key.get(key, 0)
        self.by_key[key] = n + 1
        if n < 2:
            self.violations.append(Violation(key, case, detail))

    def merge(self, other):
        for k, v in other.counters.items():
            if k.startswith('max:'):
                self.counters[k] = max(self.counters.get(k, v), v)
            else:
                self.counters[k] = self.counters.get(k, 0) + v
        self.violation_count += other.violation_count
        for k, n in other.by_key.items():
            have = self.by_key.get(k, 0)
            self.by_key[k] = have + n
        for v in other.violations:
            if sum(1 for x in self.violations if x.key == v.key) < 2:
                self.violations.append(v)
        for s in other.samples:
            if len(self.samples) < 6:
                self.samples.append(s)
        for k, s in other.sets.items():
            self.sets.setdefault(k, set()).update(s)
        self.notes.extend(n for n in other.notes if n not in self.notes)
        return self


# ---- parallel farm -------------------------------------------------------------------------

_WORKER_FN = None


def _worker_init(init_fn):
    setup_imports()
    if init_fn:
        init_fn()


def _worker_call(args):
    fn, chunk = args
    res = Result()
    log = os.environ.get('VERIF_CASE_LOG')      # diagnostics only: wall time of every case
    for item in chunk:
        t0 = time.time()
        if log:
            with open(log, 'a') as f:
                f.write(f'start {os.getpid()} {item!r}\n')
        try:
            fn(item, res)
            if log:
                with open(log, 'a') as f:
                    f.write(f'done {os.getpid()} {time.time() - t0:.1f}s {item!r}\n')
        except Broken as e:
            raise Broken(f'{e} [case {item!r}]')
        except BaseException as e:   # a crash of the harness on one case is a broken harness
            raise Broken(f'harness exception on case {item!r}: {e!r}\n{traceback.format_exc()}')
    return res


def farm(fn, items, *, seed=0, init=None, nproc=None, chunk=None, progress=None):
    '''Run fn(item, result) for every item on a pool of long-lived worker processes and merge the
    results.  VERIF_SEED only permutes the work order; every item is always run.'''
    items = list(items)
    rng = random.Random(seed)
    rng.shuffle(items)
    nproc = nproc or NPROC
    total = Result()
    if not items:
        return total
    if nproc <= 1 or len(items) < 2:
        _worker_init(init)
        return total.merge(_worker_call((fn, items)))
    if chunk is None:
        chunk = max(1, min(200, len(items) // (nproc * 8) or 1))
    chunks = [(fn, items[i:i + chunk]) for i in range(0, len(items), chunk)]
    ctx = multiprocessing.get_context('fork')
    done = 0
    # the (possibly huge) case list lives in every forked worker: keep it out of the workers'
    # garbage collections, whose cost would otherwise grow with the number of cases
    gc.collect()
    gc.freeze()
    with ctx.Pool(nproc, initializer=_worker_init, initargs=(init,)) as pool:
        for res in pool.imap_unordered(_worker_call, chunks):
            total.merge(res)
            done += 1
            if progress and done % progress == 0:
                print(f'  .. {done}/{len(chunks)} chunks', file=sys.stderr, flush=True)
    return total


# ---- known findings, replay files, evidence -------------------------------------------------

def load_known_findings():
    path = os.path.join(VERIF, 'known_findings.json')
    if not os.path.exists(path):
        return []
    with open(path) as f:
        return json.load(f)['findings']


def write_replay(prop, violation):
    os.makedirs(os.path.join(VERIF, 'replays'), exist_ok=True)
    body = {'property': prop, **violation.to_json()}
    path = os.path.join(VERIF, 'replays', f'{prop}-{digest(body)}.json')
    with open(path, 'w') as f:
        json.dump(body, f, indent=1, sort_keys=True)
    return path


def write_evidence(prop, tier, seed, level, coverage, assumptions, wall_s, violations):
    # evidence/ describes runs against /repo itself; a run against a scratch tree (VERIF_REPO:
    # seeded changes, mutants) leaves its evidence in the git-ignored replays/ directory
    edir = os.path.join(VERIF, 'evidence') if os.path.realpath(REPO) == '/repo' else \
        os.path.join(VERIF, 'replays', 'evidence-scratch')
    os.makedirs(edir, exist_ok=True)
    path = os.path.join(edir, f'{prop}.json')
    body = {
        'property_id': prop, 'tier': tier, 'seed': seed, 'level': level,
        'coverage': jsonable(coverage), 'assumptions': assumptions,
        'wall_s': round(wall_s, 2), 'violations': violations,
    }
    tmp = path + '.tmp'
    with open(tmp, 'w') as f:
        json.dump(body, f, indent=1, sort_keys=True)
    os.replace(tmp, path)
    return path


def vacuous(prop, result, msg):
    '''A coverage guard failed.  With no violation in hand that makes the run worthless (broken
    harness, exit 2).  When violations WERE found the tree under test misbehaves, which is the
    usual reason for parts of the space not being reached: the violations are concrete,
    replayable cases and are what gets reported; the gap is noted in the evidence.'''
    known = {k['key'] for k in load_known_findings()
             if k['property'] == prop and k['status'] == 'known'}
    if any(key not in known for key in result.by_key):
        result.notes.append('coverage guard failed next to violations: ' + msg[:300])
        return
    raise Broken(msg)


def finish(prop, tier, seed, level, result, coverage, assumptions, started):
    '''Report violations / known findings, write evidence, return the exit code.'''
    known = [k for k in load_known_findings() if k['property'] == prop and k['status'] == 'known']
    known_keys = {k['key']: k for k in known}
    reported_known = set()
    new = []
    new_count = 0
    for key, n in sorted(result.by_key.items()):
        if key in known_keys:
            reported_known.add(key)
        else:
            new_count += n
    for v in result.violations:
        if v.key not in known_keys:
            new.append(v)
    for key in sorted(reported_known):
        print(f'KNOWN-FINDING: property={prop} {known_keys[key]["what"]} '
              f'[{result.by_key[key]} cases, key={key}]')
    shown = 0
    for v in new:
        if shown >= 8:
            break
        path = write_replay(prop, v)
        print(f'VIOLATION property={prop} replay={path}')
        print(f'  key={v.key}')
        print(f'  detail={json.dumps(jsonable(v.detail))[:600]}')
        shown += 1
    coverage = dict(coverage)
    if not result.samples and not coverage.get('samples'):
        if not new:
            raise Broken('the run recorded no sample case for its evidence')
        result.samples.append({'violating_case': jsonable(new[0].case)})
    coverage.setdefault('counters', dict(sorted(result.counters.items())))
    coverage.setdefault('samples', result.samples[:4])
    coverage['violations_by_key'] = dict(sorted(result.by_key.items()))
    coverage['known_findings_matched'] = sorted(reported_known)
    for name, s in result.sets.items():
        coverage.setdefault('distinct_' + name, len(s))
    if result.notes:
        coverage['notes'] = result.notes
    wall = time.time() - started
    write_evidence(prop, tier, seed, level, coverage, assumptions, wall, new_count)
    summary = {k: v for k, v in coverage.items()
               if isinstance(v, (int, float, bool, str)) and k != 'rule'}
    print(f'{prop} {tier}: {json.dumps(summary)} wall={wall:.1f}s new_violations={new_count} '
          f'known={len(reported_known)}')
    return EXIT_VIOLATION if new_count else EXIT_OK


def standard_replay(prop, path, run_case, init=None):
    '''Re-execute exactly the case stored in a replay file, without the explorer.'''
    with open(path) as f:
        body = json.load(f)
    if init:
        init()
    res = Result()
    run_case(body['case'], res)
    if res.violation_count:
        for v in res.violations:
            print(f'VIOLATION property={prop} replay={path}')
            print(f'  key={v.key}')
            print(f'  detail={json.dumps(jsonable(v.detail))[:2000]}')
        return EXIT_VIOLATION
    print(f'{prop}: replayed case holds')
    return EXIT_OK


def run_sync(coro):
    '''Drive a coroutine that must not block (nothing it awaits is pending).'''
    try:
        coro.send(None)
    except StopIteration as e:
        return e.value
    coro.close()
    raise Broken('coroutine blocked in run_sync')
