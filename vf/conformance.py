'''Binding of the fake plyvel stand-in to the real LevelDB (plyvel 1.5.x).

(a) Differential run of every operation sequence up to a depth over a small alphabet (put,
    delete, write batches committed / aborted with transaction=True / False, get, forward and
    reverse prefix iteration, iteration with start / stop, close + reopen) on the fake and on
    real plyvel in /dev/shm; every observation must be identical.
(b) The index-building pipeline itself is run on real LevelDB for a set of scenarios (sync
    with flush schedules, reorganisations) and its observables are compared with the run over
    the fake.
'''
import itertools
import os
import shutil
import sys

from vf import fakeplyvel
from vf.common import SHM, Broken

KEYS = [b'a\x00', b'a\x01', b'b']
VALS = [b'1', b'']


def observe(db):
    out = [tuple(db.get(k) for k in KEYS)]
    out.append(list(db.iterator()))
    out.append(list(db.iterator(prefix=b'a')))
    out.append(list(db.iterator(prefix=b'a', reverse=True)))
    out.append(list(db.iterator(prefix=b'')))
    out.append(list(db.iterator(prefix=b'b', include_value=False)))
    out.append(list(db.iterator(start=b'a\x01')))
    out.append(list(db.iterator(start=b'a\x00', stop=b'b')))
    # (reverse iteration with explicit start/stop is not compared: real plyvel 1.5.1 returns
    #  nothing for a one-key range there, and ElectrumX only ever uses prefix=)
    out.append(list(db.iterator(prefix=b'\xff')))
    return out


def ops_alphabet(full):
    ops = []
    for k in KEYS:
        for v in (VALS if full else VALS[:1]):
            ops.append(('put', k, v))
        ops.append(('delete', k))
    ops.append(('batch', True, False, (('put', KEYS[0], b'x'), ('delete', KEYS[1]))))
    ops.append(('batch', True, True, (('put', KEYS[2], b'y'), ('delete', KEYS[0]))))     # aborted
    ops.append(('batch', False, True, (('put', KEYS[1], b'z'),)))        # aborted, no transaction
    ops.append(('batch', True, False, (('delete', KEYS[0]), ('put', KEYS[0], b'w'))))
    ops.append(('reopen',))
    return ops


class Boom(Exception):
    pass


def apply(mod, db, path, op):
    if op[0] == 'put':
        db.put(op[1], op[2])
    elif op[0] == 'delete':
        db.delete(op[1])
    elif op[0] == 'batch':
        try:
            with db.write_batch(transaction=op[1], sync=True) as b:
                for o in op[3]:
                    if o[0] == 'put':
                        b.put(o[1], o[2])
                    else:
                        b.delete(o[1])
                if op[2]:
                    raise Boom()
        except Boom:
            pass
    elif op[0] == 'reopen':
        db.close()
        db = mod.DB(path, create_if_missing=False)
    return db


def differential(depth_full=3, depth_reduced=4):
    import importlib
    fake = fakeplyvel
    sys_plyvel = sys.modules.get('plyvel')
    sys.modules.pop('plyvel', None)
    real = importlib.import_module('plyvel')
    if getattr(real, '_fake', False):
        raise Broken('could not import the real plyvel')
    if sys_plyvel is not None:
        sys.modules['plyvel'] = sys_plyvel
    root = os.path.join(SHM, f'vf-conf-{os.getpid()}')
    shutil.rmtree(root, ignore_errors=True)
    os.makedirs(root)
    stores = fakeplyvel.Stores()
    saved = fakeplyvel.CURRENT
    fakeplyvel.use(stores)
    n = 0
    try:
        rpath, fpath = os.path.join(root, 'real'), os.path.join(root, 'fake')
        rdb = real.DB(rpath, create_if_missing=True)
        fdb = fake.DB(fpath, create_if_missing=True)
        seqs = itertools.chain(
            *(itertools.product(ops_alphabet(True), repeat=d) for d in range(1, depth_full + 1)),
            itertools.product(ops_alphabet(False), repeat=depth_reduced))
        for seq in seqs:
            for k in KEYS + [b'x']:
                rdb.delete(k)
                fdb.delete(k)
            for op in seq:
                rdb = apply(real, rdb, rpath, op)
                fdb = apply(fake, fdb, fpath, op)
                if observe(rdb) != observe(fdb):
                    raise Broken(f'fake plyvel differs from LevelDB after {seq!r}: '
                                 f'{observe(rdb)} vs {observe(fdb)}')
            n += 1
        # opening semantics
        rdb.close()
        fdb.close()
        for mod, path in ((real, rpath + '2'), (fake, fpath + '2')):
            try:
                mod.DB(path, create_if_missing=False)
                raise Broken('opening a missing DB without create_if_missing succeeded')
            except Broken:
                raise
            except Exception:
                pass
        for mod, path in ((real, rpath), (fake, fpath)):
            a = mod.DB(path)
            try:
                mod.DB(path)
                raise Broken(f'second open of a locked DB succeeded ({mod})')
            except Broken:
                raise
            except Exception:
                pass
            a.close()
    finally:
        fakeplyvel.use(saved)
        shutil.rmtree(root, ignore_errors=True)
    return n


def pipeline_on_real_leveldb():
    '''Index and reorganise on real LevelDB and on the fake; compare all observables.'''
    from vf import indexrun, observe as obsmod, reorgrun, world
    scenarios = [
        (['fan', 'chain2', 'col0', 'col1', 'scol0', 'multi', 'opret', 'self', 'empty', 'new'],
         {2: False, 4: True, 5: False, 7: True}),
        (['old', 'self', 'self', 'new', 'multi'], {1: True, 2: True, 3: False}),
        (['big252', 'sweep252', 'old'], {1: True}),
    ]
    world.patch_modules()
    n = 0
    for recipes, fmap in scenarios:
        sim = indexrun.chain_for(recipes)
        ref = obsmod.ref_at(sim.blocks, len(sim.blocks) - 1, indexrun.ACTIVATION)
        y = reorgrun.make_branch(list(recipes), 2, ['replay', 'new', 'old'], b'Y', sim) \
            if len(recipes) >= 5 else None
        results = []
        for engine in ('fake', 'real'):
            if engine == 'real':
                fakeplyvel.uninstall()
            try:
                w = world.World(reorg_limit=5, activation=indexrun.ACTIVATION, prefetch=3)
                try:
                    w.daemon.set_chain(sim.blocks)
                    w.flush_schedule = dict(fmap)
                    w.start_sync()
                    try:
                        w.run_until_caught_up()
                        o1 = obsmod.observe(w, ref, what=('utxo', 'hist', 'headers'))
                    except (world.SyncFailed, world.Stalled, world.ReaderBlocked,
                            obsmod.ReadFailed) as e:
                        results.append(('failed', type(e).__name__))
                        continue
                    o2 = None
                    if y is not None:
                        w.daemon.add_known(sim.blocks)
                        w.daemon.set_chain(y.blocks)
                        refy = obsmod.ref_at(y.blocks, len(y.blocks) - 1, indexrun.ACTIVATION)
                        try:
                            w.poll()
                            o2 = obsmod.observe(w, refy, what=('utxo', 'hist', 'headers'))
                        except (world.SyncFailed, world.Stalled, world.ReaderBlocked,
                                obsmod.ReadFailed) as e:
                            o2 = ('failed', type(e).__name__)
                    # only agreement between the two engines is judged here: whether the
                    # result is RIGHT is the checks' business (a defect in the tree under test
                    # must surface as a violation there, not as a broken harness here)
                    results.append((o1, o2))
                finally:
                    w.close()
            finally:
                if engine == 'real':
                    fakeplyvel.install()
        if results[0] != results[1]:
            raise Broken(f'pipeline over fake plyvel and over LevelDB disagree on {recipes}')
        n += 1 + (y is not None)
    return n
