'''Chain universe: transactions and blocks built by an independent serializer, block recipes that
exercise the shortcuts visible in the indexer, and a block tree for forks.

Nothing here imports electrumx.
'''
import json
import os
import struct
from hashlib import sha256

HERE = os.path.dirname(os.path.abspath(__file__))


def dsha(b):
    return sha256(sha256(b).digest()).digest()


def varint(n):
    if n < 253:
        return bytes([n])
    if n < 65536:
        return b'\xfd' + struct.pack('<H', n)
    if n < 4294967296:
        return b'\xfe' + struct.pack('<I', n)
    return b'\xff' + struct.pack('<Q', n)


def p2pkh(tag):
    return b'\x76\xa9\x14' + sha256(tag).digest()[:20] + b'\x88\xac'


SCRIPTS = {
    'A': p2pkh(b'A'), 'B': p2pkh(b'B'), 'C': p2pkh(b'C'), 'D': p2pkh(b'D'),
    'E': b'',                              # empty script: spendable
    'R': b'\x6a\x04data',                  # OP_RETURN: unspendable before activation only
    'F': b'\x00\x6a\x04data',              # OP_FALSE OP_RETURN: always unspendable
    'S': b'\x51',                          # OP_1, a second non-standard spendable script
}
SPENDABLE_KEYS = ('A', 'B', 'C', 'D', 'E', 'S')
ZERO32 = bytes(32)


def script_hashX(script):
    return sha256(script).digest()[:11]


def scripthash_hex(script):
    '''The protocol's script hash: sha256(script), byte-reversed, hex.'''
    return sha256(script).digest()[::-1].hex()


def is_unspendable(script, height, activation):
    '''The activation-height OP_RETURN rule, written from the property, not from the code.'''
    false_return = script[:2] == b'\x00\x6a'
    plain_return = script[:1] == b'\x6a'
    if height >= activation:
        return false_return
    return false_return or plain_return


class Tx:
    __slots__ = ('inputs', 'outputs', 'version', 'locktime', 'raw', 'txid')

    def __init__(self, inputs, outputs, version=1, locktime=0):
        '''inputs: list of (prev_txid, prev_idx, script_sig, sequence); outputs: (value, script).'''
        self.inputs = [tuple(i) for i in inputs]
        self.outputs = [tuple(o) for o in outputs]
        self.version = version
        self.locktime = locktime
        parts = [struct.pack('<i', version), varint(len(self.inputs))]
        for prev, idx, sig, seq in self.inputs:
            parts += [prev, struct.pack('<I', idx), varint(len(sig)), sig, struct.pack('<I', seq)]
        parts.append(varint(len(self.outputs)))
        for value, script in self.outputs:
            parts += [struct.pack('<q', value), varint(len(script)), script]
        parts.append(struct.pack('<I', locktime))
        self.raw = b''.join(parts)
        self.txid = dsha(self.raw)

    def is_coinbase(self):
        return len(self.inputs) >= 1 and self.inputs[0][0] == ZERO32 \
            and self.inputs[0][1] == 0xffffffff

    def __repr__(self):
        return f'<Tx {self.txid[:4].hex()} in={len(self.inputs)} out={len(self.outputs)}>'


def coinbase(tag, script_key='A', value=50_0000_0000, extra_outputs=()):
    sig = b'\x03' + tag
    outs = [(value, SCRIPTS[script_key])] + list(extra_outputs)
    return Tx([(ZERO32, 0xffffffff, sig, 0xffffffff)], outs)


def merkle_root(txids):
    cur = list(txids)
    while len(cur) > 1:
        if len(cur) & 1:
            cur.append(cur[-1])
        cur = [dsha(cur[i] + cur[i + 1]) for i in range(0, len(cur), 2)]
    return cur[0]


class Block:
    __slots__ = ('height', 'prev', 'txs', 'header', 'hash', 'raw', 'label')

    def __init__(self, height, prev, txs, label=''):
        self.height = height
        self.prev = prev
        self.txs = list(txs)
        self.label = label
        root = merkle_root([t.txid for t in self.txs])
        self.header = (struct.pack('<i', 0x20000000) + prev + root
                       + struct.pack('<III', 1_600_000_000 + height * 600, 0x207fffff, height))
        assert len(self.header) == 80
        self.hash = dsha(self.header)
        self.raw = self.header + varint(len(self.txs)) + b''.join(t.raw for t in self.txs)

    @property
    def hex_hash(self):
        return self.hash[::-1].hex()

    def __repr__(self):
        return f'<Block h={self.height} {self.hex_hash[:8]} txs={len(self.txs)} {self.label}>'


# ---- mined prefix collisions ---------------------------------------------------------------

def _collision_coinbase(nonce):
    # context free: no height inside, so it is valid in any block of any chain
    # script and value vary with the nonce, so that colliding coinbases differ in what a
    # careless prefix lookup would return for them
    key = 'CDAB'[nonce % 4]
    return Tx([(ZERO32, 0xffffffff, b'\x04coll' + struct.pack('<Q', nonce), 0xffffffff)],
              [(25_0000_0000 + nonce % 1000, SCRIPTS[key])])


def load_collisions():
    '''Coinbases whose tx hashes share their first 4 bytes (mined once, nonces committed).'''
    path = os.path.join(HERE, 'collisions.json')
    with open(path) as f:
        nonces = json.load(f)['nonces']
    txs = [_collision_coinbase(n) for n in nonces]
    assert len({t.txid[:4] for t in txs}) == 1 and len({t.txid for t in txs}) == len(txs), \
        'committed collision nonces do not collide any more'
    return txs


def mine_collisions(count=3, limit=60_000_000):
    seen = {}
    for nonce in range(limit):
        t = _collision_coinbase(nonce)
        lst = seen.setdefault(t.txid[:4], [])
        lst.append(nonce)
        if len(lst) >= count:
            return lst
    raise RuntimeError('no collision found')


# ---- symbolic chain state and recipes --------------------------------------------------------

class Sim:
    '''Symbolic state of one branch: the blocks so far and the unspent outputs, so that recipes
    only build valid chains.'''

    def __init__(self, activation, branch=b''):
        self.activation = activation
        self.blocks = []
        self.utxos = {}           # (txid, idx) -> dict(key, value, height, script)
        self.order = []           # outpoints in creation order
        self.branch = branch
        self.collisions = None

    def copy(self, branch):
        s = Sim(self.activation, branch)
        s.blocks = list(self.blocks)
        s.utxos = dict(self.utxos)
        s.order = list(self.order)
        s.collisions = self.collisions
        return s

    @property
    def height(self):
        return len(self.blocks) - 1

    @property
    def tip(self):
        return self.blocks[-1].hash if self.blocks else ZERO32

    def spendable(self, keys=SPENDABLE_KEYS + ('R',), newest=False):
        seq = reversed(self.order) if newest else self.order
        return [op for op in seq if op in self.utxos and self.utxos[op]['key'] in keys]

    def _key_of(self, script):
        for k, s in SCRIPTS.items():
            if s == script:
                return k
        return '?'

    def valid(self, tx, pending_spent=()):
        return all((i[0], i[1]) in self.utxos and (i[0], i[1]) not in pending_spent
                   for i in tx.inputs)

    def add_block(self, txs, label=''):
        '''txs: full list incl. coinbase.  Updates the symbolic UTXO state.'''
        h = self.height + 1
        blk = Block(h, self.tip, txs, label)
        for t in txs:
            if not t.is_coinbase():
                for prev, idx, _s, _q in t.inputs:
                    assert (prev, idx) in self.utxos, f'invalid spend in recipe {label}'
                    del self.utxos[(prev, idx)]
            for idx, (value, script) in enumerate(t.outputs):
                if is_unspendable(script, h, self.activation):
                    continue
                op = (t.txid, idx)
                self.utxos[op] = dict(key=self._key_of(script), value=value, height=h, script=script)
                self.order.append(op)
        self.blocks.append(blk)
        return blk

    def cb(self, key='A', extra=()):
        h = self.height + 1
        return coinbase(struct.pack('<I', h)[:3] + self.branch, key, extra_outputs=extra)

    def spend(self, ops, outs):
        ins = [(op[0], op[1], b'\x01\x51', 0xfffffffe) for op in ops]
        return Tx(ins, [(v, SCRIPTS[k]) for k, v in outs])


def _val(sim, op):
    return sim.utxos[op]['value']


def r_cb(sim):
    return []


def r_spend_old(sim):
    ops = sim.spendable(SPENDABLE_KEYS)
    if not ops:
        return []
    return [sim.spend([ops[0]], [('B', _val(sim, ops[0]))])]


def r_spend_new(sim):
    ops = sim.spendable(SPENDABLE_KEYS, newest=True)
    if not ops:
        return []
    return [sim.spend([ops[0]], [('C', _val(sim, ops[0]))])]


def r_chain2(sim):
    ops = sim.spendable(SPENDABLE_KEYS)
    if not ops:
        return []
    v = _val(sim, ops[0])
    t1 = sim.spend([ops[0]], [('A', v)])
    t2 = Tx([(t1.txid, 0, b'\x01\x52', 0xffffffff)], [(v, SCRIPTS['D'])])
    return [t1, t2]


def r_fan(sim):
    ops = sim.spendable(SPENDABLE_KEYS)
    if not ops:
        return []
    v = _val(sim, ops[0])
    return [sim.spend([ops[0]], [('A', v // 4), ('A', v // 4), ('B', v // 4), ('R', 0), ('F', 0),
                                 ('A', 0), ('E', 7)])]


def r_multi(sim):
    ops = sim.spendable(SPENDABLE_KEYS)
    if len(ops) < 2:
        return r_spend_old(sim)
    v = _val(sim, ops[0]) + _val(sim, ops[-1])
    return [sim.spend([ops[0], ops[-1]], [('A', v // 2), ('B', v - v // 2)])]


def r_opret_spend(sim):
    ops = sim.spendable(('R',))
    if not ops:
        return r_fan(sim)
    return [sim.spend([ops[0]], [('D', _val(sim, ops[0]))])]


def r_spend_empty(sim):
    ops = sim.spendable(('E',))
    if not ops:
        return r_fan(sim)
    return [sim.spend([ops[0]], [('S', _val(sim, ops[0]))])]


def r_self(sim):
    '''Spend an output of A back to A (same script hash as input and output of one tx) twice
    in one block, so the history of A gets two consecutive txs.'''
    ops = [op for op in sim.spendable(('A',)) if _val(sim, op) >= 2]
    if not ops:
        return []
    v = _val(sim, ops[0])
    t1 = sim.spend([ops[0]], [('A', v - 1), ('A', 1)])
    t2 = Tx([(t1.txid, 1, b'', 0), (t1.txid, 0, b'', 0)], [(v, SCRIPTS['A'])])
    return [t1, t2]


def r_big252(sim):
    ops = sim.spendable(SPENDABLE_KEYS)
    if not ops:
        return []
    v = _val(sim, ops[0])
    outs = [('ABCD'[i % 4], 1000 + i) for i in range(252)]
    outs.append(('A', v - sum(x[1] for x in outs)))
    return [sim.spend([ops[0]], outs)]


def r_sweep252(sim):
    '''One tx per small output of the big tx: a block of 253 txs (3-byte tx count).'''
    ops = [op for op in sim.spendable(SPENDABLE_KEYS) if 1000 <= _val(sim, op) < 1252]
    return [sim.spend([op], [('D', _val(sim, op))]) for op in ops[:252]]


def _big(n):
    def recipe(sim):
        ops = [op for op in sim.spendable(SPENDABLE_KEYS) if _val(sim, op) > 10 ** 7]
        if not ops:
            return []
        v = _val(sim, ops[0])
        outs = [('ABCD'[i % 4], 1000 + i) for i in range(n)]
        outs.append(('A', v - sum(x[1] for x in outs)))
        return [sim.spend([ops[0]], outs)]
    recipe.__name__ = f'r_big{n}'
    return recipe


def _sweep(n, reverse=False):
    def recipe(sim):
        ops = [op for op in sim.spendable(SPENDABLE_KEYS) if 1000 <= _val(sim, op) < 2000][:n]
        if reverse:
            ops = ops[::-1]
        return [sim.spend([op], [('D', _val(sim, op))]) for op in ops]
    recipe.__name__ = f'r_sweep{n}' + ('r' if reverse else '')
    return recipe


def r_wide(sim):
    '''One transaction with 65,540 outputs: output indexes cross the 1-, 2- and 3-byte marks.'''
    ops = [op for op in sim.spendable(SPENDABLE_KEYS) if _val(sim, op) > 10 ** 7]
    if not ops:
        return []
    v = _val(sim, ops[0])
    outs = [('ABCD'[i % 4], 1 + i % 5) for i in range(65539)]
    outs.append(('A', v - sum(x[1] for x in outs)))
    return [sim.spend([ops[0]], outs)]


def r_sweepwide(sim):
    '''Spend outputs of the wide transaction on both sides of each index-width boundary.'''
    wide = sorted(op for op in sim.utxos if op[1] >= 65536)
    if not wide:
        return []
    txid = wide[0][0]
    want = [(txid, i) for i in (0, 255, 256, 65535, 65536, 65538) if (txid, i) in sim.utxos]
    return [sim.spend([op], [('D', _val(sim, op))]) for op in want]


def _collide(k):
    def recipe(sim):
        return ('collision-coinbase', k)
    recipe.__name__ = f'r_collide{k}'
    return recipe


def _spend_collide(k):
    def recipe(sim):
        cb = sim.collisions[k]
        op = (cb.txid, 0)
        if op not in sim.utxos:
            return []
        return [sim.spend([op], [('D', _val(sim, op))])]
    recipe.__name__ = f'r_spend_collide{k}'
    return recipe


RECIPES = {
    'cb': r_cb, 'old': r_spend_old, 'new': r_spend_new, 'chain2': r_chain2, 'fan': r_fan,
    'multi': r_multi, 'opret': r_opret_spend, 'big252': r_big252, 'sweep252': r_sweep252, 'empty': r_spend_empty, 'self': r_self,
    'wide': r_wide, 'sweepwide': r_sweepwide,
    'col0': _collide(0), 'col1': _collide(1), 'col2': _collide(2),
    'scol0': _spend_collide(0), 'scol1': _spend_collide(1), 'scol2': _spend_collide(2),
}

for _n in (1, 198, 199, 200, 252, 299, 400):
    RECIPES[f'big{_n}'] = _big(_n)
    RECIPES[f'sweep{_n}'] = _sweep(_n)
    RECIPES[f'sweep{_n}r'] = _sweep(_n, reverse=True)
_COLLISIONS = None


def apply_recipe(sim, name):
    '''Append one block built by the named recipe.  A recipe that cannot apply degenerates to a
    coinbase-only block (the chain stays valid).'''
    global _COLLISIONS
    if sim.collisions is None:
        if _COLLISIONS is None:
            _COLLISIONS = load_collisions()
        sim.collisions = _COLLISIONS
    if name.startswith('tx:'):            # explicit transactions (fork replays)
        raise ValueError('use add_txs')
    if name.startswith('burn+'):
        # the coinbase pays only OP_FALSE OP_RETURN: it touches no script hash at all
        out = RECIPES[name[5:]](sim)
        out = [] if isinstance(out, tuple) else out
        return sim.add_block([sim.cb('F')] + out, name)
    out = RECIPES[name](sim)
    if isinstance(out, tuple) and out[0] == 'collision-coinbase':
        cb = sim.collisions[out[1]]
        if any(t.txid == cb.txid for b in sim.blocks for t in b.txs):
            cb = sim.cb()                 # a tx can only exist once in a chain
        return sim.add_block([cb], name)
    return sim.add_block([sim.cb()] + out, name)


def add_txs(sim, txs, label):
    '''Append a block holding those of the given (non-coinbase) txs that are valid here, judged
    tx by tx against the outputs that are really spendable at this height on this branch.'''
    h = sim.height + 1
    avail = set(sim.utxos)
    ok = []
    for t in txs:
        ins = [(i[0], i[1]) for i in t.inputs]
        if len(set(ins)) == len(ins) and all(op in avail for op in ins):
            ok.append(t)
            avail.difference_update(ins)
            for idx, (_value, script) in enumerate(t.outputs):
                if not is_unspendable(script, h, sim.activation):
                    avail.add((t.txid, idx))
    return sim.add_block([sim.cb()] + ok, label)


def build_chain(recipes, activation=3, branch=b''):
    sim = Sim(activation, branch)
    apply_recipe(sim, 'cb')               # genesis
    for r in recipes:
        apply_recipe(sim, r)
    return sim
