'''Shared driver for C03 / C05 / C15: chains with forks, reorganisations through the real block
processor, comparison with the reference indexer and with a fresh real server that only ever
saw the final chain.'''
import itertools

from vf import chain, observe, world
from vf.common import Broken
from vf.oracle import RefIndex

ACTIVATION = 3
PREFIX = ['cb', 'fan', 'chain2']
WHAT = ('utxo', 'hist', 'headers')
_SIMS = {}


def sim_for(recipes, branch=b'', activation=ACTIVATION):
    key = (tuple(recipes), branch, activation)
    s = _SIMS.get(key)
    if s is None:
        if len(_SIMS) > 512:
            _SIMS.clear()
        s = _SIMS[key] = chain.build_chain(list(recipes), activation, branch)
    return s


def orphaned_txs(base_sim, fork_height):
    return [t for b in base_sim.blocks[fork_height + 1:] for t in b.txs if not t.is_coinbase()]


def apply_branch(sim, recipe, orphaned):
    if recipe == 'replay':
        return chain.add_txs(sim, orphaned, 'replay')
    if recipe == 'replay_rev':
        return chain.add_txs(sim, list(reversed(orphaned)), 'replay_rev')
    if recipe == 'conflict':
        txs = []
        used = set()
        for t in orphaned:
            op = (t.inputs[0][0], t.inputs[0][1])
            if op in sim.utxos and op not in used:
                used.add(op)
                txs.append(sim.spend([op], [('S', sim.utxos[op]['value'])]))
        return sim.add_block([sim.cb()] + txs, 'conflict')
    return chain.apply_recipe(sim, recipe)


def make_branch(base_recipes, depth, branch_recipes, tag, base_sim=None, activation=ACTIVATION):
    '''Fork `depth` blocks below the tip of the base chain and grow the given recipes.'''
    base_sim = base_sim or sim_for(base_recipes, b'', activation)
    fork_h = base_sim.height - depth
    stem = sim_for(base_recipes[:len(base_recipes) - depth], b'', activation)
    assert stem.height == fork_h and stem.blocks[-1].hash == base_sim.blocks[fork_h].hash
    s = stem.copy(tag)
    orphaned = orphaned_txs(base_sim, fork_h)
    for r in branch_recipes:
        apply_branch(s, r, orphaned)
    return s


def _levels(hashes):
    levels = [list(hashes)]
    cur = list(hashes)
    while len(cur) > 1:
        if len(cur) & 1:
            cur = cur + [cur[-1]]
        cur = [chain.dsha(cur[i] + cur[i + 1]) for i in range(0, len(cur), 2)]
        levels.append(cur)
    return levels


def _fold(h, branch, index):
    for elt in branch:
        h = chain.dsha(elt + h) if index & 1 else chain.dsha(h + elt)
        index >>= 1
    return h


def raw_tables(w):
    '''Raw DB content in a canonical form for the differential oracle: the u and h UTXO tables
    as they are; history concatenated per script hash (row split depends on flush history).'''
    utxo = w.db.utxo_db
    hist = w.db.history.db
    tab = {k: v for k, v in utxo.iterator(prefix=b'u')}
    tab.update({k: v for k, v in utxo.iterator(prefix=b'h')})
    cat = {}
    for k, v in hist.iterator(prefix=b''):
        if len(k) == 13:
            cat[k[:-2]] = cat.get(k[:-2], b'') + v
    cat = {k: v for k, v in cat.items() if v}
    undo = sorted(k for k, _v in utxo.iterator(prefix=b'U'))
    return tab, cat, undo


_FRESH = {}


def fresh_observation(blocks, ref, limit, activation=ACTIVATION):
    '''What a real server that only ever saw `blocks` reports (cached per chain).'''
    key = (tuple(b.hash for b in blocks), limit, activation)
    got = _FRESH.get(key)
    if got is None:
        if len(_FRESH) > 64:
            _FRESH.clear()
        w = world.World(reorg_limit=limit, activation=activation)
        try:
            w.daemon.set_chain(blocks)
            w.start_sync()
            w.run_until_caught_up()
            obs = observe.observe(w, ref, what=WHAT)
            tab, cat, _undo = raw_tables(w)
        finally:
            w.close()
        got = _FRESH[key] = (obs, tab, cat)
    return got


def check_final(w, final_blocks, res, failures, limit, label='final', fresh=True, populate=False,
                activation=ACTIVATION):
    ref = observe.ref_at(final_blocks, len(final_blocks) - 1, activation)
    if not w.at_daemon_tip():
        failures.append((f'{label}:not-at-daemon-tip',
                         dict(db_height=w.db.state.height, bp_height=w.bp.state.height,
                              daemon=len(final_blocks) - 1)))
        return
    try:
        obs = observe.observe(w, ref, what=WHAT)
    except (world.ReaderBlocked, observe.ReadFailed) as e:
        failures.append((f'{label}:read-failed', dict(error=repr(e))))
        return
    for field, detail in observe.compare(obs, ref, WHAT):
        failures.append((f'{label}:{field}', detail if isinstance(detail, dict) else {'v': detail}))
    res.count('observations')
    # header proofs for every (height <= cp_height <= tip) against the textbook merkle tree
    if populate:
        w.loop.run_coro(w.db.populate_header_merkle_cache(), fire_timers=False)
    hashes = [b.hash for b in final_blocks]
    for cp in range(len(hashes)):
        lv = _levels(hashes[:cp + 1])
        for h in range(cp + 1):
            try:
                branch, root = w.loop.run_coro(w.db.header_branch_and_root(cp + 1, h),
                                               fire_timers=False)
                ok = (root == lv[-1][0] and _fold(hashes[h], branch, h) == root)
                err = None
            except Exception as e:      # noqa
                ok, err = False, repr(e)
            if not ok:
                failures.append((f'{label}:header-proof', dict(cp_height=cp, height=h, error=err)))
                break
        else:
            continue
        break
    res.count('header_proofs_checked')
    tab, cat, undo = raw_tables(w)
    tx_count = w.db.state.tx_count
    for hx, blob in cat.items():
        nums = [int.from_bytes(blob[i:i + 5], 'little') for i in range(0, len(blob), 5)]
        if any(n >= tx_count for n in nums):
            failures.append((f'{label}:history-row-beyond-tx-count', dict(hashX=hx, nums=nums)))
            break
    if fresh:
        fobs, ftab, fcat = fresh_observation(final_blocks, ref, limit, activation)
        if fobs != obs:
            diff = [k for k in obs if obs[k] != fobs.get(k)]
            failures.append((f'{label}:differs-from-fresh-server', dict(fields=diff)))
        if ftab != tab:
            failures.append((f'{label}:utxo-tables-differ-from-fresh-server',
                             dict(extra=sorted(set(tab) - set(ftab))[:4],
                                  missing=sorted(set(ftab) - set(tab))[:4])))
        if fcat != cat:
            failures.append((f'{label}:history-rows-differ-from-fresh-server', {}))
        res.count('fresh_server_comparisons')


def run_reorg_case(case, res, prop):
    '''case: tail (3 recipes), flush (over base heights), shape, d, branch (recipes), limit, ...'''
    base_recipes = list(case.get('prefix', PREFIX)) + list(case['tail'])
    act = case.get('activation', ACTIVATION)
    base = sim_for(base_recipes, b'', act)
    limit = case.get('limit', 200)
    shape = case['shape']
    failures = []
    w = world.World(reorg_limit=limit, activation=act, prefetch=case.get('prefetch', 100),
                    chunk_size=case.get('chunk'), immediate_daemon=not case.get('slow_daemon'))
    final_blocks = None
    try:
        w.daemon.set_chain(base.blocks)
        w.flush_schedule = {i + 1: (c == 'F') for i, c in enumerate(case.get('flush', ''))
                            if c in 'HF'}
        w.start_sync()
        try:
            w.run_until_caught_up()
            if case.get('restart'):
                # the server is stopped and started again before the daemon reorganises (the
                # downloaded block files are gone by then: orphaned blocks must be re-fetched)
                m = w.machine
                w.close(destroy=False)
                w = world.World(m, reorg_limit=limit, activation=act,
                                prefetch=case.get('prefetch', 100), chunk_size=case.get('chunk'))
                w.daemon.set_chain(base.blocks)
                w.start_sync()
                w.run_until_caught_up()
                res.count('restarts_before_reorg')
            # what Controller.serve does after the first catch-up; then a client asks for a
            # header proof against the current tip, which extends the header merkle cache
            w.loop.run_coro(w.db.populate_header_merkle_cache(), fire_timers=False)
            tip = w.db.state.height
            # clients read the whole index before the reorganisation (whatever the read paths
            # remember must not survive it)
            if case.get('read_before', True):
                ref0 = observe.ref_at(base.blocks, base.height, act)
                try:
                    obs0 = observe.observe(w, ref0, what=WHAT)
                    for field, detail in observe.compare(obs0, ref0, WHAT)[:1]:
                        failures.append((f'before-reorg:{field}', detail if isinstance(detail, dict)
                                         else {'v': detail}))
                except (world.ReaderBlocked, observe.ReadFailed) as e:
                    failures.append(('before-reorg:read-failed', dict(error=repr(e))))
                res.count('full_reads_before_reorg')
            for cp in case.get('proofs_before', (tip, tip - 1)):
                if cp >= 0:
                    w.loop.run_coro(w.db.header_branch_and_root(cp + 1, cp // 2), fire_timers=False)
            if shape == 'single':
                y = make_branch(base_recipes, case['d'], case['branch'], b'Y', base, act)
                final_blocks = y.blocks
                w.daemon.set_chain(y.blocks)
                w.poll()
            elif shape == 'double':
                y = make_branch(base_recipes, case['d'], case['branch'], b'Y', base, act)
                w.daemon.set_chain(y.blocks)
                w.poll()
                # second fork, off branch Y, d2 below its tip
                d2 = case['d2']
                stem_h = y.height - d2
                z = _resim(y.blocks[:stem_h + 1], b'Z', act)
                orphaned = [t for b in y.blocks[stem_h + 1:] for t in b.txs if not t.is_coinbase()]
                for r in case['branch2']:
                    apply_branch(z, r, orphaned)
                final_blocks = z.blocks
                w.daemon.set_chain(z.blocks)
                w.poll()
            elif shape == 'short':
                # daemon first shows a branch not longer than what is indexed, then extends it
                y = make_branch(base_recipes, case['d'], case['branch'], b'Y', base, act)
                k = case['d'] - case.get('shorter', 0)      # equal (k=d) or shorter branch first
                first = y.blocks[:base.height - case['d'] + k + 1]
                w.daemon.set_chain(first)
                w.poll()
                final_blocks = y.blocks
                w.daemon.set_chain(y.blocks)
                w.poll()
            elif shape == 'forced':
                n = case['n']
                if not w.bp.force_chain_reorg(n):
                    raise Broken('forced reorg refused although caught up')
                mode = case['mode']
                if mode == 'unchanged':
                    final_blocks = base.blocks
                elif mode == 'extended':
                    x = sim_for(base_recipes + ['new'], b'', act)
                    final_blocks = x.blocks
                    w.daemon.set_chain(x.blocks)
                else:       # silently switched to another branch of equal height, then longer
                    y = make_branch(base_recipes, case['d'], case['branch'], b'Y', base, act)
                    eq = y.blocks[:base.height + 1]
                    w.daemon.set_chain(eq)
                    final_blocks = y.blocks
                w.poll()
                if mode == 'switched':
                    w.daemon.set_chain(final_blocks)
                    w.poll()
                if mode == 'unchanged':
                    # premise of C03: the daemon's chain ends up longer than what was indexed
                    x = sim_for(base_recipes + ['new'], b'', act)
                    final_blocks = x.blocks
                    w.daemon.set_chain(x.blocks)
                    w.poll()
            elif shape == 'midbatch':
                # the daemon extends on branch X; at scheduler step k it switches to branch Y
                x = sim_for(base_recipes + case['ext'], b'', act)
                y = make_branch(base_recipes, case['d'], case['branch'], b'Y', base, act)
                final_blocks = y.blocks
                w.daemon.set_chain(x.blocks)
                k = case['k']
                fired = []

                def hook(n):
                    if n == k and not fired:
                        fired.append(n)
                        w.daemon.set_chain(y.blocks)
                w.caught_up_event.clear()
                if not w.loop.fire_timer():
                    raise Broken('no polling timer')
                w.run_until_caught_up(step_hook=hook)
                res.maxi('midbatch_steps', w.sync_steps)
                if not fired:
                    res.count('midbatch_switch_after_end')
                    w.daemon.set_chain(y.blocks)
                if not w.at_daemon_tip():
                    w.poll()
            elif shape == 'midbatch-short':
                # the daemon extends on branch X; at scheduler step k - possibly between two of
                # the block processor's daemon calls - it switches to a branch that is SHORTER
                # than X (heights just asked about no longer exist); later that branch grows
                if case.get('first_fork'):
                    # ... or the daemon is first on a longer FORK (a reorganisation is under
                    # way when it switches to the shorter branch)
                    x = make_branch(base_recipes, case['first_fork'],
                                    ['conflict'] + ['new'] * (case['first_fork'] + 1), b'F', base, act)
                else:
                    x = sim_for(base_recipes + case['ext'], b'', act)
                y = make_branch(base_recipes, case['d'], case['branch'], b'Y', base, act)
                short = y.blocks[:base.height + 1 - case.get('below', 0)]
                final_blocks = y.blocks
                w.daemon.set_chain(x.blocks)
                w.daemon.add_known(x.blocks)
                w.daemon.add_known(y.blocks)
                k = case['k']
                fired = []

                def hook(n):
                    if n == k and not fired:
                        fired.append(n)
                        w.daemon.set_chain(short)
                w.caught_up_event.clear()
                if not w.loop.fire_timer():
                    raise Broken('no polling timer')
                w.run_until_caught_up(step_hook=hook)
                res.maxi('midbatch_short_steps', w.sync_steps)
                if not fired:
                    res.count('midbatch_switch_after_end')
                w.daemon.set_chain(y.blocks)
                w.poll()
                if not w.at_daemon_tip():
                    w.poll()
            else:
                raise Broken(f'unknown shape {shape}')
        except world.SyncFailed as e:
            failures.append(('block-processor-died', dict(error=repr(e.args[0]))))
        except world.Stalled as e:
            failures.append(('stalled', dict(error=repr(e))))
        else:
            check_final(w, final_blocks, res, failures, limit, activation=act)
            if w.loop.errors:
                failures.append(('loop-error', dict(errors=[str(e.get('exception') or e.get('message'))
                                                            for e in w.loop.errors])))
        res.count('executions')
        res.distinct('final_chains', tuple(b.hash for b in final_blocks) if final_blocks else ())
        res.distinct('shapes', shape)
    finally:
        w.close()
    for field, detail in failures[:3]:
        res.violation(field.split(':', 1)[-1] if prop == 'C03' else field, case, detail)
    return failures


def _resim(blocks, tag, activation=ACTIVATION):
    '''A Sim whose symbolic UTXO state results from the given blocks.'''
    s = chain.Sim(activation, tag)
    if chain._COLLISIONS is None:
        chain._COLLISIONS = chain.load_collisions()
    s.collisions = chain._COLLISIONS
    for b in blocks:
        s.add_block(b.txs, b.label)
    assert [b.hash for b in s.blocks] == [b.hash for b in blocks]
    return s
