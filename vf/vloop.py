'''A hand-stepped asyncio event loop with a virtual clock.

Nothing runs unless the scheduler says so: ready callbacks, timers and worker-thread jobs are
separate, explicitly chosen actions.  Stock asyncio Task / Future / Lock / Event / shield and
aiorpcx TaskGroup / timeout_after / run_in_thread all work on it unchanged.
'''
import asyncio
import heapq
from asyncio import events


class Job:
    '''A run_in_executor call: the body runs when the scheduler picks it, not before.'''
    __slots__ = ('func', 'args', 'fut', 'name', 'seq', 'held', 'started', 'result', 'deliver')

    def __init__(self, func, args, fut, seq):
        self.func = func
        self.args = args
        self.fut = fut
        self.seq = seq
        self.name = getattr(func, '__qualname__', None) or getattr(func, '__name__', repr(func))
        self.held = False
        self.started = False
        self.result = None

    def __repr__(self):
        return f'<Job {self.seq} {self.name}>'


class Crash(BaseException):
    '''Raised inside instrumented I/O to cut an execution at a crash point.  Derives from
    BaseException so that no `except Exception` in the code under test can swallow it.'''


class VLoop(asyncio.BaseEventLoop):

    def __init__(self):
        super().__init__()
        self._vtime = 0.0
        self.jobs = []
        self._job_seq = 0
        self.errors = []            # exceptions reported to the loop's handler
        self.set_exception_handler(self._on_error)
        self.job_hook = None        # called with the Job just before its body runs
        self.steps = 0
        self._entered = False

    # -- asyncio plumbing -------------------------------------------------------------------
    def time(self):
        return self._vtime

    def _process_events(self, event_list):
        pass

    def _write_to_self(self):
        pass

    def _on_error(self, loop, context):
        self.errors.append(context)

    def run_in_executor(self, executor, func, *args):
        fut = self.create_future()
        self._job_seq += 1
        self.jobs.append(Job(func, args, fut, self._job_seq))
        return fut

    async def getaddrinfo(self, host, port, **kw):
        '''As BaseEventLoop.getaddrinfo: socket.getaddrinfo in a worker job - but the answer is
        that of a host without DNS, computed here: the IDNA encoding of the name comes first
        (UnicodeError for an empty or over-long label, exactly like CPython), a literal address
        resolves to itself, localhost to 127.0.0.1, every other name fails with socket.gaierror.'''
        import ipaddress
        import socket

        def resolve():
            if isinstance(host, str):
                host.encode('idna')
            name = host.decode() if isinstance(host, (bytes, bytearray)) else host
            if name == 'localhost':
                name = '127.0.0.1'
            try:
                ip = ipaddress.ip_address(name)
            except ValueError:
                raise socket.gaierror(socket.EAI_AGAIN, 'Temporary failure in name resolution') from None
            fam = socket.AF_INET if ip.version == 4 else socket.AF_INET6
            addr = (str(ip), port) if ip.version == 4 else (str(ip), port, 0, 0)
            return [(fam, socket.SOCK_STREAM, 6, '', addr)]
        return await self.run_in_executor(None, resolve)

    async def sock_connect(self, sock, address):
        '''Nothing listens anywhere in the verification environment.'''
        raise ConnectionRefusedError(111, 'Connection refused')

    def enter(self):
        if not self._entered:
            self._entered = True
            self._thread_id = __import__('threading').get_ident()
            events._set_running_loop(self)
            asyncio.set_event_loop(self)

    def leave(self):
        if self._entered:
            self._entered = False
            self._thread_id = None
            events._set_running_loop(None)
            asyncio.set_event_loop(None)

    # -- scheduler actions ------------------------------------------------------------------
    def has_ready(self):
        while self._ready and self._ready[0]._cancelled:
            self._ready.popleft()
        return bool(self._ready)

    def step_ready(self):
        '''Run the next ready callback (asyncio's FIFO order is not a choice).'''
        if not self.has_ready():
            return False
        handle = self._ready.popleft()
        self.steps += 1
        handle._run()
        return True

    def drain_ready(self, limit=100000):
        n = 0
        while self.step_ready():
            n += 1
            if n > limit:
                raise RuntimeError('ready queue does not drain (busy loop)')
        return n

    def next_timer(self):
        while self._scheduled and self._scheduled[0]._cancelled:
            h = heapq.heappop(self._scheduled)
            h._scheduled = False
        return self._scheduled[0] if self._scheduled else None

    def fire_timer(self, max_when=None):
        '''Advance the virtual clock to the earliest timer and move it to the ready queue.'''
        h = self.next_timer()
        if h is None or (max_when is not None and h._when > max_when):
            return False
        heapq.heappop(self._scheduled)
        h._scheduled = False
        if h._when > self._vtime:
            self._vtime = h._when
        self._ready.append(h)
        return True

    @staticmethod
    def is_timeout_handle(h):
        '''aiorpcx timeout_after deadlines (protocol time-outs), as opposed to polling sleeps.'''
        return getattr(getattr(h, '_callback', None), '__name__', '') == 'timeout_task'

    def polling_timers(self):
        return sorted((h for h in self._scheduled if not h._cancelled
                       and not self.is_timeout_handle(h)), key=lambda h: h._when)

    def fire_polling_timer(self, max_when=None):
        '''Fire the earliest timer that is not a protocol time-out (those never fire: no job
        or daemon call is assumed to outlast them).'''
        hs = self.polling_timers()
        if not hs or (max_when is not None and hs[0]._when > max_when):
            return False
        h = hs[0]
        self._scheduled.remove(h)
        heapq.heapify(self._scheduled)
        h._scheduled = False
        if h._when > self._vtime:
            self._vtime = h._when
        self._ready.append(h)
        return True

    def pending_jobs(self):
        return [j for j in self.jobs if not j.started]

    def run_job(self, job, deliver=True):
        '''Run a job body atomically and post its completion like call_soon_threadsafe would.
        A job whose asyncio future was cancelled still runs: a thread cannot be cancelled.
        deliver=False: the body runs now but the completion is kept back (job.deliver()) - a
        thread descheduled after its last read, before it returns.'''
        assert not job.started
        job.started = True
        self.jobs.remove(job)
        self.steps += 1
        if self.job_hook:
            self.job_hook(job)
        try:
            value, exc = job.func(*job.args), None
        except Crash:
            raise
        except BaseException as e:       # noqa
            value, exc = None, e
        job.result = (value, exc)

        def hand_over():
            if job.fut.cancelled():
                return
            if exc is not None:
                job.fut.set_exception(exc)
            else:
                job.fut.set_result(value)
        if deliver:
            self.call_soon(hand_over)
        else:
            job.deliver = lambda: self.call_soon(hand_over)
        return job

    # -- default policy ---------------------------------------------------------------------
    def run_default(self, until=None, max_steps=200000, fire_timers=True, horizon=None):
        '''Default schedule: ready callbacks first, then the oldest pending job, then (if
        allowed) the earliest timer.  Stops when `until()` holds, or when nothing is enabled.'''
        n = 0
        while True:
            if until is not None and until():
                return True
            n += 1
            if n > max_steps:
                raise RuntimeError('run_default exceeded max_steps')
            if self.step_ready():
                continue
            jobs = [j for j in self.pending_jobs() if not j.held]
            if jobs:
                self.run_job(jobs[0])
                continue
            if fire_timers and self.fire_timer(horizon):
                continue
            return until is None

    def run_coro(self, coro, **kw):
        '''Run a coroutine to completion under the default policy and return its result.'''
        task = self.create_task(coro)
        self.run_default(until=task.done, **kw)
        if not task.done():
            raise RuntimeError(f'coroutine blocked: {coro}')
        return task.result()

    def close(self):
        self.leave()
        self._ready.clear()
        self._scheduled.clear()
        self.jobs.clear()
        if not self.is_closed():
            try:
                super().close()
            except Exception:
                pass
