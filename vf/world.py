'''The world: one simulated machine (files + LevelDB stores + durable-effect log), a scripted
daemon, and the real ElectrumX objects wired as Controller.serve wires them, all stepped by a
VLoop.  Nothing under /repo is modified; seams are replaced from outside.
'''
import builtins
import itertools
import os
import shutil
import sys
import time as _time

from vf import fakeplyvel
from vf.common import SHM, Broken, run_sync
from vf.vloop import VLoop

_REAL_OPEN = builtins.open
_REAL_OS = os
_RUN_SEQ = itertools.count()
CURRENT = None          # the Machine whose files are being logged


# ---- machine: files + stores + effect log -----------------------------------------------------

class LoggedFile:
    def __init__(self, f, path, machine):
        self.f = f
        self.path = path
        self.m = machine

    def write(self, b):
        b = bytes(b)
        self.m.effect(('write', self.path, self.f.tell(), b))
        return self.f.write(b)

    def read(self, *a):
        if self.m.io_hook:
            self.m.io_hook('read', self.path)
        return self.f.read(*a)

    def seek(self, *a):
        return self.f.seek(*a)

    def tell(self):
        return self.f.tell()

    def close(self):
        return self.f.close()

    def flush(self):
        return self.f.flush()

    def __enter__(self):
        return self

    def __exit__(self, *a):
        self.f.close()
        return False


class OsProxy:
    '''`os` as seen by electrumx.server.db / block_processor: mkdir and remove are logged.'''

    def __getattr__(self, name):
        return getattr(_REAL_OS, name)

    def mkdir(self, path, *a, **kw):
        m = CURRENT
        ap = _REAL_OS.path.abspath(path)
        if m is not None and m.owns(ap):
            if _REAL_OS.path.exists(ap):
                raise FileExistsError(ap)
            m.effect(('mkdir', ap))
        return _REAL_OS.mkdir(path, *a, **kw)

    def remove(self, path, *a, **kw):
        m = CURRENT
        ap = _REAL_OS.path.abspath(path)
        if m is not None and m.owns(ap):
            if not _REAL_OS.path.exists(ap):
                raise FileNotFoundError(ap)
            m.effect(('remove', ap))
        return _REAL_OS.remove(path, *a, **kw)


def logged_open(path, mode='r', *a, **kw):
    m = CURRENT
    if m is None or not isinstance(path, (str, bytes, os.PathLike)):
        return _REAL_OPEN(path, mode, *a, **kw)
    ap = os.path.abspath(path)
    if not m.owns(ap):
        return _REAL_OPEN(path, mode, *a, **kw)
    if 'w' in mode:
        m.effect(('create', ap))
    f = _REAL_OPEN(path, mode, *a, **kw)
    return LoggedFile(f, ap, m)


class Machine:
    '''Durable state of one simulated host: a directory on /dev/shm, the fake LevelDB stores,
    and the totally ordered log of durable effects.'''

    def __init__(self, stores=None):
        self.root = os.path.join(SHM, f'vf-{os.getpid()}-{next(_RUN_SEQ)}')
        # a directory of that name can only be the left-over of a killed process whose pid
        # has been reused
        shutil.rmtree(self.root, ignore_errors=True)
        os.makedirs(self.root)
        self.db_dir = os.path.join(self.root, 'db')
        os.makedirs(self.db_dir)
        self.stores = stores or fakeplyvel.Stores()
        self.stores.hook = self._db_effect
        self.log = []
        self.io_hook = None          # sliced jobs: called before every I/O operation
        self.effect_hook = None      # called with the effect index before the effect is applied
        self.recording = True

    def owns(self, abspath):
        return abspath.startswith(self.root + os.sep)

    def rel(self, abspath):
        return os.path.relpath(abspath, self.root)

    def _db_effect(self, kind, path, ops):
        self.effect(('db', path, kind, ops))

    def effect(self, eff):
        if self.io_hook:
            self.io_hook(eff[0], eff[1])
        if self.effect_hook:
            self.effect_hook(len(self.log), eff)
        if self.recording:
            if eff[0] != 'db':
                eff = (eff[0], self.rel(eff[1])) + tuple(eff[2:])
            else:
                eff = ('db', self.rel(eff[1])) + tuple(eff[2:])
            self.log.append(eff)

    def activate(self):
        global CURRENT
        CURRENT = self
        fakeplyvel.use(self.stores)
        os.chdir(self.db_dir)

    def destroy(self):
        global CURRENT
        if CURRENT is self:
            CURRENT = None
        try:
            os.chdir(SHM)
        except OSError:
            pass
        shutil.rmtree(self.root, ignore_errors=True)

    # -- snapshots and crash reconstruction ---------------------------------------------------
    def snapshot(self):
        files = {}
        dirs = []
        for dirpath, dirnames, filenames in os.walk(self.root):
            dirs.append(os.path.relpath(dirpath, self.root))
            for fn in filenames:
                p = os.path.join(dirpath, fn)
                with _REAL_OPEN(p, 'rb') as f:
                    files[os.path.relpath(p, self.root)] = f.read()
        stores = {self.rel(p): dict(d) for p, d in self.stores.data.items()}
        return {'dirs': dirs, 'files': files, 'stores': stores}

    @classmethod
    def from_snapshot(cls, snap, effects=(), torn=None):
        '''A fresh machine holding the snapshot plus the given effects; `torn` = (effect, nbytes)
        applies only a byte prefix of one further file write.'''
        m = cls()
        for d in snap['dirs']:
            os.makedirs(os.path.join(m.root, d), exist_ok=True)
        for rel, data in snap['files'].items():
            with _REAL_OPEN(os.path.join(m.root, rel), 'wb') as f:
                f.write(data)
        from sortedcontainers import SortedDict
        for rel, d in snap['stores'].items():
            m.stores.data[os.path.join(m.root, rel)] = SortedDict(d)
        for eff in effects:
            m.apply_effect(eff)
        if torn is not None:
            eff, nbytes = torn
            assert eff[0] == 'write'
            m.apply_effect(('write', eff[1], eff[2], eff[3][:nbytes]))
        return m

    def apply_effect(self, eff):
        kind = eff[0]
        path = os.path.join(self.root, eff[1])
        if kind == 'mkdir':
            os.makedirs(path, exist_ok=True)
        elif kind == 'create':
            with _REAL_OPEN(path, 'wb'):
                pass
        elif kind == 'write':
            mode = 'rb+' if os.path.exists(path) else 'wb+'
            with _REAL_OPEN(path, mode) as f:
                f.seek(eff[2])
                f.write(eff[3])
        elif kind == 'remove':
            if os.path.exists(path):
                os.remove(path)
        elif kind == 'db':
            from sortedcontainers import SortedDict
            d = self.stores.data.setdefault(path, SortedDict())
            os.makedirs(path, exist_ok=True)
            for op, k, v in eff[3]:
                if op == 'put':
                    d[k] = v
                else:
                    d.pop(k, None)
        else:
            raise Broken(f'unknown effect {eff[0]}')


# ---- scripted daemon ----------------------------------------------------------------------------

class DaemonError(Exception):
    pass


class Reply:
    __slots__ = ('kind', 'compute', 'fut', 'seq', 'held', 'info', 'deliver_now')

    def __init__(self, kind, compute, fut, seq, info):
        self.kind = kind
        self.compute = compute
        self.fut = fut
        self.seq = seq
        self.held = False
        self.info = info

    def __repr__(self):
        return f'<Reply {self.seq} {self.kind} {self.info}>'


class ScriptedDaemon:
    '''Implements exactly the methods the server uses.  Holds a block tree (orphans stay
    retrievable by hash, like bitcoind), the current best chain and a mempool.'''

    def __init__(self, loop, immediate=True):
        self.loop = loop
        self.immediate = immediate
        self.by_hash = {}           # hex hash -> Block
        self.best = []              # list of Block, index = height
        self.mempool = {}           # txid (bytes) -> Tx, insertion ordered
        self.known_txs = {}         # txid -> Tx for getrawtransaction of confirmed txs
        self._height = None
        self.pending = []
        self._seq = 0
        self.calls = []             # log of (method, info)
        self.broadcasts = []
        self.errors_mod = None      # set to electrumx.server.daemon for the real DaemonError

    # -- environment side ------------------------------------------------------------------
    def set_chain(self, blocks):
        self.best = list(blocks)
        for b in blocks:
            self.by_hash[b.hex_hash] = b
            for t in b.txs:
                self.known_txs[t.txid] = t

    def add_known(self, blocks):
        '''Blocks off the best chain stay retrievable by hash (like bitcoind keeps orphans).'''
        for b in blocks:
            self.by_hash[b.hex_hash] = b
            for t in b.txs:
                self.known_txs.setdefault(t.txid, t)

    def set_mempool(self, txs):
        self.mempool = {t.txid: t for t in txs}

    # -- plumbing ------------------------------------------------------------------------------
    async def _call(self, kind, compute, info=None):
        self.calls.append((kind, info))
        if self.immediate:
            return compute()
        self._seq += 1
        r = Reply(kind, compute, self.loop.create_future(), self._seq, info)
        self.pending.append(r)
        return await r.fut

    def deliver(self, reply, later=False):
        '''Answer from the daemon's state NOW.  later=True: the answer is computed now but
        travels slowly - reply.deliver_now() hands it over.'''
        self.pending.remove(reply)
        if reply.fut.done():
            return
        try:
            value, exc = reply.compute(), None
        except Exception as e:          # daemon-side error travels to the caller
            value, exc = None, e

        def hand_over():
            if reply.fut.done():
                return
            if exc is not None:
                reply.fut.set_exception(exc)
            else:
                reply.fut.set_result(value)
        if later:
            reply.deliver_now = hand_over
        else:
            hand_over()

    def _daemon_error(self, msg):
        cls = self.errors_mod.DaemonError if self.errors_mod else DaemonError
        return cls({'code': -8, 'message': msg})

    # -- API used by the server -----------------------------------------------------------------
    async def height(self):
        def compute():
            self._height = len(self.best) - 1
            return self._height
        return await self._call('height', compute)

    def cached_height(self):
        return self._height

    async def block_hex_hashes(self, first, count):
        def compute():
            if first + count > len(self.best) or first < 0:
                raise self._daemon_error('Block height out of range')
            return [b.hex_hash for b in self.best[first:first + count]]
        return await self._call('block_hex_hashes', compute, (first, count))

    async def get_block(self, hex_hash, filename):
        from electrumx.lib.util import open_truncate

        def compute():
            blk = self.by_hash.get(hex_hash)
            if blk is None:
                raise self._daemon_error('Block not found')
            with open_truncate(filename) as f:
                f.write(blk.raw)
            return len(blk.raw)
        return await self._call('get_block', compute, hex_hash[:8])

    async def mempool_hashes(self):
        def compute():
            self.last_listing_height = len(self.best) - 1     # the height this listing is of
            return [txid[::-1].hex() for txid in self.mempool]
        return await self._call('mempool_hashes', compute)

    async def getrawtransactions(self, hex_hashes, replace_errs=True):
        hex_hashes = list(hex_hashes)

        def compute():
            out = []
            for hh in hex_hashes:
                t = self.mempool.get(bytes.fromhex(hh)[::-1])
                out.append(t.raw if t else None)
            return out
        return await self._call('getrawtransactions', compute, len(hex_hashes))

    async def getrawtransaction(self, hex_hash, verbose=False):
        def compute():
            try:
                txid = bytes.fromhex(hex_hash)[::-1]
            except (ValueError, TypeError):
                raise self._daemon_error('bad txid')
            t = self.mempool.get(txid) or self.known_txs.get(txid)
            if t is None:
                raise self._daemon_error('No such mempool or blockchain transaction')
            return {'hex': t.raw.hex()} if verbose else t.raw.hex()
        return await self._call('getrawtransaction', compute, str(hex_hash)[:8])

    async def broadcast_transaction(self, raw_tx):
        def compute():
            self.broadcasts.append(raw_tx)
            raise self._daemon_error('TX decode failed')
        return await self._call('broadcast', compute)

    async def getnetworkinfo(self):
        return await self._call('getnetworkinfo',
                                lambda: {'version': 101000700, 'subversion': '/Bitcoin SV:1.0.7/'})

    def logged_url(self, url=None):
        return 'scripted:8332'

    def set_url(self, url):
        pass


# ---- system assembly ------------------------------------------------------------------------------

_PATCHED = False
_FROZEN = False


def patch_modules():
    '''Install the seams (once per process): fake plyvel, logged open/os, virtual time.'''
    global _PATCHED
    if _PATCHED:
        return
    fakeplyvel.install()
    import electrumx.lib.util as util
    import electrumx.server.db as dbmod
    import electrumx.server.block_processor as bpmod
    util.open = logged_open
    proxy = OsProxy()
    dbmod.os = proxy
    bpmod.os = proxy
    _PATCHED = True


def make_coin(activation, prefetch):
    from electrumx.lib.coins import BitcoinSVRegtest

    class VCoin(BitcoinSVRegtest):
        GENESIS_ACTIVATION = activation
        _prefetch = prefetch

        @classmethod
        def prefetch_limit(cls, height):
            return cls._prefetch
    return VCoin


def reset_class_state(chunk_size=None):
    import electrumx.server.block_processor as bpmod
    odb = bpmod.OnDiskBlock
    odb.blocks = {}
    odb.tasks = {}
    odb.log_block = False
    odb.daemon = None
    odb.state = None
    odb.chunk_size = chunk_size or 25_000_000


class VirtualTime:
    '''time.time / time.monotonic as seen by the modules under test follow the loop clock.'''

    def __init__(self, loop):
        self.loop = loop

    def __getattr__(self, name):
        return getattr(_time, name)

    def time(self):
        return 1_700_000_000.0 + self.loop.time()

    def monotonic(self):
        return self.loop.time()


class World:
    '''DB + BlockProcessor (+ optionally mempool, session manager) on one Machine.'''

    def __init__(self, machine=None, *, reorg_limit=200, activation=3, prefetch=100,
                 chunk_size=None, immediate_daemon=True, max_send=None, cache_mb=1200,
                 daemon=None, extra_env=None, small_files=False):
        patch_modules()
        self.machine = machine or Machine()
        self.machine.activate()
        self.loop = VLoop()
        self.loop.enter()
        self.params = dict(reorg_limit=reorg_limit, activation=activation, prefetch=prefetch,
                           chunk_size=chunk_size, max_send=max_send, cache_mb=cache_mb,
                           small_files=small_files)
        reset_class_state(chunk_size)
        import electrumx.server.db as dbmod
        import electrumx.server.block_processor as bpmod
        import electrumx.server.daemon as daemonmod
        from electrumx.server.env import Env
        from electrumx.server.controller import Notifications
        vt = VirtualTime(self.loop)
        dbmod.time = vt
        import electrumx.server.history as histmod
        histmod.time = vt
        env_vars = {
            'DB_DIRECTORY': self.machine.db_dir, 'DAEMON_URL': 'http://u:p@localhost:8332/',
            'REORG_LIMIT': str(reorg_limit), 'CACHE_MB': str(cache_mb), 'PEER_DISCOVERY': 'off',
            'SERVICES': '', 'DB_ENGINE': 'leveldb', 'COIN': 'BitcoinSV', 'NET': 'regtest',
        }
        for k in ('MAX_SEND', 'REPORT_SERVICES', 'BANNER_FILE', 'TOR_BANNER_FILE', 'DROP_CLIENT',
                  'COST_SOFT_LIMIT', 'COST_HARD_LIMIT', 'REQUEST_TIMEOUT', 'MAX_RECV', 'LOG_SESSIONS'):
            os.environ.pop(k, None)
        if max_send is not None:
            env_vars['MAX_SEND'] = str(max_send)
        os.environ.update(env_vars)
        os.environ.update(extra_env or {})
        self.coin = make_coin(activation, prefetch)
        self.env = Env(self.coin)
        if daemon is None:
            daemon = ScriptedDaemon(self.loop, immediate=immediate_daemon)
        self.daemon = daemon
        self.daemon.loop = self.loop
        self.daemon.errors_mod = daemonmod
        self.notifications = Notifications()
        self.db = dbmod.DB(self.env)
        if small_files:
            # the flat files are LogicalFiles split into physical files of a configured size
            # (16 MB / 2 MB in production); tiny, odd sizes make every flush straddle files
            self.db.headers_file.file_size = 200
            self.db.tx_counts_file.file_size = 36
            self.db.hashes_file.file_size = 100
        self.bp = bpmod.BlockProcessor(self.env, self.db, self.daemon, self.notifications)
        self.bpmod = bpmod
        self.caught_up_event = __import__('asyncio').Event()
        self.shutdown_event = __import__('asyncio').Event()
        self.bp_task = None
        self.flush_schedule = {}        # height -> True (full) / False (history only)
        self.on_full_flush = None       # callback(world) after each completed UTXO flush
        self.on_job_start = None        # callback(job) before a worker job body runs
        self.on_job_end = None          # callback(job) after it ran
        self.loop.job_hook = self._job_hook
        self.advanced = []              # heights whose advance_block job has completed
        self.closed = False

    # -- scheduling hooks ---------------------------------------------------------------------
    def _job_hook(self, job):
        func = getattr(job.func, '__func__', None)
        if self.on_job_start:
            self.on_job_start(job)
        if func is self.bpmod.BlockProcessor.advance_block:
            h = job.args[0].height
            directive = self.flush_schedule.get(h)
            if directive is not None:
                # what check_cache_size_loop does, landing while this block is being advanced
                self.bp.force_flush_arg = directive

    def start_sync(self):
        # Controller.serve awaits daemon.height() before it spawns the block processor, so the
        # daemon's cached height is never unknown while fetch_and_process_blocks runs
        saved, self.daemon.immediate = self.daemon.immediate, True
        try:
            run_sync(self.daemon.height())
        finally:
            self.daemon.immediate = saved
        self.bp_task = self.loop.create_task(
            self.bp.fetch_and_process_blocks(self.caught_up_event, self.shutdown_event))
        return self.bp_task

    def bp_idle(self):
        '''The block processor is parked in its polling sleep (caught up, nothing to do).'''
        return (self.caught_up_event.is_set() and not self.loop.has_ready()
                and not self.loop.pending_jobs() and not self.daemon.pending)

    def run_until_caught_up(self, max_steps=60000, step_hook=None):
        """Default schedule until the block processor is parked in its polling sleep after an
        on_caught_up (caught_up_event set, nothing runnable but timers).  Raises SyncFailed if
        the processing task ends, Stalled if nothing is enabled before that.  step_hook(k) is
        called before scheduler step k (environment events placed at a step)."""
        loop = self.loop
        n = 0
        while True:
            if step_hook:
                step_hook(n)
            n += 1
            if n > max_steps:
                raise Stalled(f'block processor still busy after {max_steps} scheduler steps '
                              '(livelock)')
            if self.bp_task.done():
                exc = self.bp_task.exception() if not self.bp_task.cancelled() else None
                raise SyncFailed(exc)
            if loop.step_ready():
                continue
            jobs = loop.pending_jobs()
            if jobs:
                job = loop.run_job(jobs[0])
                self._after_job(job)
                continue
            if self.daemon.pending:
                self.daemon.deliver(self.daemon.pending[0])
                continue
            if self.caught_up_event.is_set():
                self.sync_steps = n
                return
            raise Stalled('nothing enabled and not caught up')

    def at_daemon_tip(self):
        return (self.bp.state.height == len(self.daemon.best) - 1
                and self.db.state.height == self.bp.state.height
                and bytes(self.db.state.tip) == self.daemon.best[-1].hash
                and self.bp.reorg_count is None)

    def poll(self):
        '''Fire the block processor's polling timer and run to the next park.'''
        self.caught_up_event.clear()
        if not self.loop.fire_timer():
            raise Broken('no polling timer to fire')
        self.run_until_caught_up()

    def _after_job(self, job):
        func = getattr(job.func, '__func__', None)
        if self.on_job_end:
            self.on_job_end(job)
        if func is type(self.db).flush_dbs and self.on_full_flush and job.args[1]:
            self.on_full_flush(self)
        if func is self.bpmod.BlockProcessor.advance_block and job.result[1] is None:
            self.advanced.append(job.args[0].height)

    def run_isolated(self, coro):
        '''Run a read-only coroutine to completion without letting anything else progress.'''
        loop = self.loop
        saved = list(loop._ready)
        loop._ready.clear()
        saved_jobs = list(loop.jobs)
        loop.jobs.clear()
        try:
            task = loop.create_task(coro)
            n = 0
            while not task.done():
                n += 1
                if n > 100000:
                    raise Broken('isolated coroutine does not finish')
                if loop.step_ready():
                    continue
                if loop.jobs:
                    loop.run_job(loop.jobs[0])
                    continue
                # a retry sleep inside a reader (limited_history / all_utxos)
                raise ReaderBlocked()
            return task.result()
        finally:
            loop._ready.extendleft(reversed(saved))
            loop.jobs[:0] = saved_jobs

    def close(self, destroy=True):
        if self.closed:
            return
        self.closed = True
        try:
            if self.db.utxo_db:
                self.db.utxo_db.close()
                self.db.utxo_db = None
            self.db.history.close_db()
        except Exception:
            pass
        self.loop.close()
        if destroy:
            self.machine.destroy()
        # Collect this execution's garbage NOW, while no loop is current: coroutines of the
        # abandoned tasks run their finally-blocks when collected, and if that happened during
        # a later execution they would spawn tasks on ITS loop (observed: non-deterministic
        # replays).  gc.freeze() keeps the cost proportional to one execution.
        import gc
        global _FROZEN
        gc.collect()
        if not _FROZEN:
            _FROZEN = True
            gc.freeze()


class Stalled(Exception):
    '''Nothing is enabled but the block processor has not parked (deadlock).'''


class SyncFailed(Exception):
    '''fetch_and_process_blocks ended (with the given exception) instead of catching up.'''


class ReaderBlocked(Exception):
    '''A DB read path went into its retry sleep (tx number not resolvable).'''
