'''The full system: World + MemPool + SessionManager + Notifications wired as Controller.serve
wires them, with real ElectrumX / LocalRPC sessions created through aiorpcx's RSTransport over a
fake asyncio transport (requests enter as JSON bytes, replies are read off the wire).'''
import asyncio
import json
import os

from vf import world
from vf.common import Broken


class FakeTransport:
    def __init__(self, peer=('203.0.113.7', 50555)):
        self.peer = peer
        self.written = []
        self.closing = False
        self.on_write = None

    def get_extra_info(self, name, default=None):
        return self.peer if name == 'peername' else default

    def write(self, data):
        self.written.append(bytes(data))
        if self.on_write:
            self.on_write(bytes(data))

    def is_closing(self):
        return self.closing

    def close(self):
        self.closing = True

    def abort(self):
        self.closing = True

    def pause_reading(self):
        pass

    def resume_reading(self):
        pass


class Client:
    '''A connected client.  messages: every JSON object the server wrote, in order.'''

    def __init__(self, system, rpc=False, name='c'):
        import aiorpcx
        from aiorpcx.rawsocket import RSTransport
        from aiorpcx.session import SessionKind
        from electrumx.server.session import LocalRPC
        self.system = system
        self.name = name
        sm = system.session_mgr
        cls = LocalRPC if rpc else system.env.coin.SESSIONCLS
        self.transport = FakeTransport()
        self.transport.on_write = self._on_write
        self.messages = []
        self.nonstandard_tokens = 0  # NaN / Infinity tokens seen in what the server wrote
        self.write_log = []          # (db height at write time, message)
        self._buf = b''
        self._ids = 0
        self.x_sent = []             # every request sent: {'id', 'method', 'params'}

        def factory(tr):
            return cls(sm, system.db, system.mempool, sm.peer_mgr, 'RPC' if rpc else 'TCP', tr)
        self.protocol = RSTransport(factory, None, SessionKind.SERVER)
        self.protocol.connection_made(self.transport)
        self.session = self.protocol.session

    def _on_write(self, data):
        self.system.note_queryable()
        self._buf += data
        while b'\n' in self._buf:
            line, self._buf = self._buf.split(b'\n', 1)
            if line.strip():
                msg = json.loads(line, parse_constant=self._constant)
                self.messages.append(msg)
                self.write_log.append((self.system.db.state.height, msg,
                                       set(self.system.ever_queryable)))

    def _constant(self, token):
        # NaN / Infinity / -Infinity: tokens Python's encoder writes but JSON does not have
        self.nonstandard_tokens += 1
        return float(token.replace('Infinity', 'inf'))

    def send_raw(self, data):
        self.protocol.data_received(data)

    def request(self, method, params=(), req_id=None):
        self._ids += 1
        rid = req_id if req_id is not None else f'{self.name}{self._ids}'
        body = {'jsonrpc': '2.0', 'method': method, 'id': rid}
        if params is not None:
            body['params'] = params if isinstance(params, dict) else list(params)
        self.x_sent.append({'id': rid, 'method': method, 'params': list(params) if not isinstance(
            params, dict) else params})
        self.send_raw(json.dumps(body).encode() + b'\n')
        return rid

    def reply(self, rid):
        for m in self.messages:
            if m.get('id') == rid and 'method' not in m:
                return m
        return None

    def notifications(self, method=None):
        return [m for m in self.messages if 'method' in m and (method is None or m['method'] == method)]

    def call(self, method, params=()):
        '''Request and run the default schedule until the reply is there.'''
        rid = self.request(method, params)
        self.system.run_idle(until=lambda: self.reply(rid) is not None)
        r = self.reply(rid)
        if r is None:
            raise Broken(f'no reply to {method}{params}')
        return r


class System(world.World):

    def __init__(self, machine=None, **kw):
        kw.setdefault('immediate_daemon', True)
        extra = dict(COST_SOFT_LIMIT='0', COST_HARD_LIMIT='0', REQUEST_TIMEOUT='100000',
                     LOG_SESSIONS='0')
        extra.update(kw.pop('extra_env', None) or {})
        super().__init__(machine, extra_env=extra, **kw)
        import electrumx.server.session as sessmod
        import electrumx.server.mempool as mpmod
        from electrumx.server.mempool import MemPool, MemPoolAPI
        self.sessmod = sessmod
        n, db, daemon = self.notifications, self.db, self.daemon
        n.height = daemon.height
        n.db_height = lambda: db.state.height
        n.cached_height = daemon.cached_height
        n.mempool_hashes = daemon.mempool_hashes
        n.raw_transactions = daemon.getrawtransactions
        n.lookup_utxos = db.lookup_utxos
        MemPoolAPI.register(type(n))
        self.mempool = MemPool(self.env.coin, n)
        self.session_mgr = sessmod.SessionManager(self.env, db, self.bp, daemon, self.mempool,
                                                  self.shutdown_event)
        # per-run class state
        sessmod.SessionBase.session_counter = __import__('itertools').count()
        sessmod.SessionBase.log_new = False
        self.mempool_event = asyncio.Event()
        self.mp_task = None
        self.serve_task = None
        self.notify_log = []            # (height, sorted touched) as passed to _notify_sessions
        self.ever_queryable = set()     # (height, tip hash) the index has been at
        self.calls_log = []             # Notifications call sequence (for C20's binding)
        self.mp_touched_log = []        # the touched set of every mempool report
        # mempool reports whose height label is not the daemon height their listing was made at
        self.mislabelled_reports = []
        self._wrap_notifications()

    def _wrap_notifications(self):
        n = self.notifications
        orig_block, orig_mp = n.on_block, n.on_mempool

        async def on_block(touched, height):
            self.calls_log.append(('bp', height, len(touched), self.db.state.height,
                                   len(self.daemon.best) - 1))
            return await orig_block(touched, height)

        async def on_mempool(touched, height):
            self.calls_log.append(('mp', height, len(touched), self.db.state.height,
                                   len(self.daemon.best) - 1))
            self.mp_touched_log.append(frozenset(touched))
            listed_at = getattr(self.daemon, 'last_listing_height', None)
            if listed_at is not None and listed_at != height:
                self.mislabelled_reports.append(dict(label=height, listing_made_at=listed_at,
                                                     db_height=self.db.state.height))
            return await orig_mp(touched, height)
        n.on_block, n.on_mempool = on_block, on_mempool

    def note_queryable(self):
        '''Remember every (height, tip) the index has offered to readers.'''
        st = self.db.state
        if st is not None and st.height >= 0:
            self.ever_queryable.add((st.height, bytes(st.tip)))

    def _after_job(self, job):
        super()._after_job(job)
        self.note_queryable()

    # -- scheduling ------------------------------------------------------------------------------
    def step_default(self):
        '''One step of the default policy; returns the action kind or None when idle.'''
        loop = self.loop
        if loop.step_ready():
            return 'L'
        jobs = [j for j in loop.pending_jobs() if not j.held]
        if jobs:
            self._after_job(loop.run_job(jobs[0]))
            return 'J'
        pend = [r for r in self.daemon.pending if not r.held]
        if pend:
            self.daemon.deliver(pend[0])
            return 'D'
        return None

    def run_idle(self, until=None, max_steps=400000):
        n = 0
        while True:
            if until is not None and until():
                return True
            if self.step_default() is None:
                return until is None
            n += 1
            if n > max_steps:
                raise world.Stalled('system does not go idle (livelock)')

    def advance(self, seconds):
        '''Fire every polling timer due within `seconds` of virtual time, in deadline order,
        running to idle after each.'''
        loop = self.loop
        end = loop.time() + seconds
        guard = 0
        while loop.fire_polling_timer(end):
            self.run_idle()
            guard += 1
            if guard > 10000:
                raise Broken('timers keep firing')
        if loop.time() < end:
            loop._vtime = end

    def settle(self, rounds=3):
        self.run_idle()
        for _ in range(rounds):
            self.advance(5.5)

    def check_tasks(self):
        bad = []
        for name, t in (('block-processor', self.bp_task), ('mempool', self.mp_task),
                        ('session-manager', self.serve_task)):
            if t is not None and t.done() and not t.cancelled() and t.exception() is not None:
                bad.append((name, repr(t.exception())))
            elif t is not None and t.done():
                bad.append((name, 'ended'))
        return bad

    def boot(self, blocks, mempool_txs=(), populate='first'):
        '''Controller.serve's start-up, under the default schedule.  populate='stalled': the
        header merkle cache's populating read (a task of its own in the Controller) has been
        made but its result is not handed over yet - self.x_populate_job.deliver() does that.'''
        self.daemon.set_chain(blocks)
        self.daemon.set_mempool(list(mempool_txs))
        scheduled = not self.daemon.immediate
        self.daemon.immediate = True        # the set-up phase is not explored
        self.loop.run_coro(self.daemon.height(), fire_timers=False)
        self.serve_task = self.loop.create_task(
            self.session_mgr.serve(self.notifications, self.mempool_event))
        self.start_sync()
        self.run_idle(until=self.caught_up_event.is_set)
        if not self.caught_up_event.is_set():
            raise Broken('boot: block processor did not catch up')
        if populate == 'stalled':
            self.populate_task = self.loop.create_task(self.db.populate_header_merkle_cache())
            while self.loop.step_ready():
                pass
            jobs = self.loop.pending_jobs()
            if len(jobs) != 1:
                raise Broken('boot: the populating read of the header merkle cache is not pending')
            self.x_populate_job = jobs[0]
            self.loop.run_job(jobs[0], deliver=False)
        else:
            self.loop.run_coro(self.db.populate_header_merkle_cache(), fire_timers=False)
        self.mp_task = self.loop.create_task(self.mempool.keep_synchronized(self.mempool_event))
        self.run_idle()
        if self.session_mgr.notified_height is None:
            raise Broken('boot: notifications were not started')
        self.daemon.immediate = not scheduled
        return self

    def connect(self, rpc=False, name='c'):
        c = Client(self, rpc=rpc, name=name)
        self.run_idle()
        return c
