'''An in-memory stand-in for the `plyvel` module, installed in sys.modules so that ElectrumX's own
storage.LevelDB wrapper (and its write_batch(transaction=True, sync=True) wiring) runs as is.

Semantics mirrored from plyvel 1.5 / LevelDB (bound by vf.conformance against the real library):
  * iterators are snapshots taken at creation;
  * WriteBatch as a context manager: on normal exit the batch is written atomically; on an
    exception it is discarded if transaction=True and written if transaction=False;
  * a database can be open only once (LevelDB's LOCK file).
Every mutation goes through `World.effect` hooks so that it can be logged as a durable effect,
be a crash point, or be a hand-off point for sliced jobs.
'''
import os
import sys
import types

from sortedcontainers import SortedDict


class Error(Exception):
    pass


class IOError_(Error, IOError):
    pass


class Stores:
    '''All databases of one simulated machine, keyed by absolute path.'''

    def __init__(self):
        self.data = {}          # path -> SortedDict
        self.open = set()
        self.hook = None        # hook(kind, path, payload) called BEFORE a mutation is applied
        self.read_hook = None   # read_hook(kind, path) called before reads (slicing only)
        self.write_batch_flags = []   # (path, transaction, sync) of every batch created
        self.batches_created = 0
        self.batch_sizes = {}         # batch number -> number of operations when written
        self.fault = None             # (batch number, op index): raise InjectedFault there

    def snapshot(self):
        return {p: dict(d) for p, d in self.data.items()}

    @classmethod
    def from_snapshot(cls, snap):
        s = cls()
        s.data = {p: SortedDict(d) for p, d in snap.items()}
        return s


CURRENT = Stores()


def use(stores):
    global CURRENT
    CURRENT = stores
    return stores


def _prefix_end(prefix):
    b = bytearray(prefix)
    while b:
        if b[-1] != 0xff:
            b[-1] += 1
            return bytes(b)
        b.pop()
    return None


class InjectedFault(Exception):
    '''An exception raised in the middle of building a write batch (fault injection).'''


class WriteBatch:
    def __init__(self, db, transaction, sync):
        self.db = db
        self.transaction = transaction
        self.sync = sync
        self.ops = []
        st = db.stores
        st.batches_created += 1
        self.number = st.batches_created

    def _maybe_fail(self):
        f = self.db.stores.fault
        if f and f[0] == self.number and f[1] == len(self.ops):
            self.db.stores.fault = None
            raise InjectedFault(f'batch {self.number} op {len(self.ops)}')

    def put(self, key, value):
        self._maybe_fail()
        self.ops.append(('put', bytes(key), bytes(value)))

    def delete(self, key):
        self._maybe_fail()
        self.ops.append(('delete', bytes(key), None))

    def clear(self):
        self.ops = []

    def write(self):
        self.db.stores.batch_sizes[self.number] = len(self.ops)
        self.db._apply('batch', list(self.ops), self.sync)
        self.ops = []

    def __enter__(self):
        return self

    def __exit__(self, exc_type, exc, tb):
        if self.transaction and exc_type is not None:
            self.ops = []
            return False
        self.write()
        return False


class DB:
    def __init__(self, name, create_if_missing=False, max_open_files=None, **kw):
        self.stores = CURRENT
        self.path = os.path.abspath(name)
        if self.path in self.stores.open:
            raise IOError_(f'IO error: lock {self.path}/LOCK: already held by process')
        if self.path not in self.stores.data:
            if not create_if_missing:
                raise Error(f'Invalid argument: {name}: does not exist (create_if_missing is false)')
            hook = self.stores.hook
            if hook:
                hook('create', self.path, [])          # creating a database is a durable effect
            self.stores.data[self.path] = SortedDict()
            os.makedirs(self.path, exist_ok=True)     # Storage.is_new looks at the file system
        self.d = self.stores.data[self.path]
        self.stores.open.add(self.path)
        self.closed = False

    def _check(self):
        if self.closed:
            raise RuntimeError('Database is closed')

    def _apply(self, kind, ops, sync):
        self._check()
        hook = self.stores.hook
        if hook:
            hook(kind, self.path, ops)
        d = self.d
        for op, k, v in ops:
            if op == 'put':
                d[k] = v
            else:
                d.pop(k, None)

    def get(self, key, default=None, **kw):
        self._check()
        rh = self.stores.read_hook
        if rh:
            rh('get', self.path)
        return self.d.get(bytes(key), default)

    def put(self, key, value, sync=False, **kw):
        self._apply('put', [('put', bytes(key), bytes(value))], sync)

    def delete(self, key, sync=False, **kw):
        self._apply('delete', [('delete', bytes(key), None)], sync)

    def write_batch(self, transaction=False, sync=False):
        self._check()
        self.stores.write_batch_flags.append((self.path, transaction, sync))
        return WriteBatch(self, transaction, sync)

    def iterator(self, reverse=False, start=None, stop=None, include_start=True,
                 include_stop=False, prefix=None, include_key=True, include_value=True, **kw):
        self._check()
        rh = self.stores.read_hook
        if rh:
            rh('iterator', self.path)
        if prefix is not None:
            if start is not None or stop is not None:
                raise TypeError("'prefix' cannot be used together with 'start' or 'stop'")
            prefix = bytes(prefix)
            start, stop = prefix, _prefix_end(prefix)
            include_start, include_stop = True, False
        keys = list(self.d.irange(start, stop, inclusive=(include_start, include_stop),
                                  reverse=reverse))
        d = self.d
        if include_key and include_value:
            items = [(k, d[k]) for k in keys]
        elif include_key:
            items = keys
        elif include_value:
            items = [d[k] for k in keys]
        else:
            items = [None] * len(keys)
        return iter(items)

    def close(self):
        if not self.closed:
            self.closed = True
            self.stores.open.discard(self.path)

    def __enter__(self):
        return self

    def __exit__(self, *a):
        self.close()


def destroy_db(name):
    CURRENT.data.pop(os.path.abspath(name), None)


def install():
    '''Put this module in sys.modules as `plyvel`.'''
    mod = types.ModuleType('plyvel')
    mod.DB = DB
    mod.Error = Error
    mod.IOError = IOError_
    mod.destroy_db = destroy_db
    mod.__version__ = 'fake-for-verification'
    mod._fake = True
    sys.modules['plyvel'] = mod
    # storage.LevelDB caches the module on the class at import_module(); refresh if loaded
    st = sys.modules.get('electrumx.server.storage')
    if st is not None and hasattr(st.LevelDB, 'module'):
        st.LevelDB.module = mod
    return mod


def uninstall():
    '''Restore the real plyvel (for conformance runs).'''
    sys.modules.pop('plyvel', None)
    import plyvel
    st = sys.modules.get('electrumx.server.storage')
    if st is not None and hasattr(st.LevelDB, 'module'):
        st.LevelDB.module = plyvel
    return plyvel
