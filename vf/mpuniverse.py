'''Mempool transaction universe over a really indexed chain, and the mempool reference oracle.'''
import itertools

from vf import chain, reorgrun
from vf.chain import SCRIPTS, Tx, script_hashX
from vf.oracle import RefIndex

ACT = reorgrun.ACTIVATION
BASE = ['cb', 'fan', 'chain2', 'col0', 'col1', 'old', 'multi']       # height 7
DEPS = {'t2': ['t1'], 't3': ['t2'], 't4': ['t1']}
NAMES = ['t1', 't2', 't3', 't4', 't5', 't6', 't7']


class Universe:
    def __init__(self):
        self.sim = reorgrun.sim_for(BASE)
        sim = self.sim
        ref = RefIndex(sim.blocks, ACT)
        by_key = {}
        for op, (script, value, _h, _n) in sorted(ref.utxos.items(), key=lambda kv: kv[1][3]):
            by_key.setdefault(sim._key_of(script), []).append((op, value))
        col1 = (sim.collisions[1].txid, 0)
        a_ops = [x for x in by_key['A'] if x[1] > 1000]
        b_ops = [x for x in by_key['B'] if x[1] > 1000]
        u1, u2, u3 = a_ops[0], b_ops[0], a_ops[1]
        zero = [x for x in by_key['A'] if x[1] == 0][0]      # a confirmed output of value 0
        S = SCRIPTS

        def spend(ins, outs):
            return Tx([(op[0], op[1], b'\x01\x51', 0xffffffff) for op in ins],
                      [(v, S[k]) for k, v in outs])
        # t1 carries a data output FIRST: the positions of its spendable outputs are 1 and 2
        t1 = spend([u1[0]], [('F', 0), ('A', u1[1] // 2), ('B', u1[1] // 2 - 500)])
        t2 = spend([(t1.txid, 1)], [('C', u1[1] // 2 - 100)])
        t3 = spend([(t2.txid, 0)], [('D', u1[1] // 2 - 300), ('R', 0)])
        t4 = spend([u2[0], (t1.txid, 2)], [('A', u2[1] + u1[1] // 2 - 900)])
        t5 = Tx([(bytes(32), 0xffffffff, b'\x02\x51\x52', 0xffffffff)], [(777, S['B'])])
        t6 = spend([u3[0], zero[0]], [('A', 1000), ('A', 2000), ('A', u3[1] - 4000)])
        t7 = spend([col1], [('D', 25_0000_0000 - 50)])
        self.txs = dict(zip(NAMES, [t1, t2, t3, t4, t5, t6, t7]))
        self.by_id = {t.txid: n for n, t in self.txs.items()}
        self.created = {}           # outpoint -> (script, value) for every output in the universe
        for op, (script, value) in ref.created.items():
            self.created[op] = (script, value)
        for t in self.txs.values():
            for i, (v, s) in enumerate(t.outputs):
                self.created[(t.txid, i)] = (s, v)

    def closed(self, names, confirmed=()):
        '''Is the set closed under parents that are not confirmed?'''
        return all(p in names or p in confirmed for n in names for p in DEPS.get(n, ()))

    def states(self, confirmed=()):
        free = [n for n in NAMES if n not in confirmed]
        out = []
        for r in range(len(free) + 1):
            for combo in itertools.combinations(free, r):
                if self.closed(set(combo), set(confirmed)):
                    out.append(tuple(combo))
        return out

    def confirmable(self, confirmed=()):
        '''Parent-closed subsets of the not yet confirmed txs that can go into a block.'''
        free = [n for n in NAMES if n not in confirmed and n != 't5']
        out = []
        for r in range(0, len(free) + 1):
            for combo in itertools.combinations(free, r):
                if all(p in combo or p in confirmed for n in combo for p in DEPS.get(n, ())):
                    out.append(tuple(combo))
        return out

    def block_with(self, sim, names, tag=b''):
        '''Extend sim (a Sim) by one block holding the named universe txs (parents first).'''
        order = [n for n in NAMES if n in names]
        return sim.add_block([sim.cb()] + [self.txs[n] for n in order], 'confirm')


_U = None


def universe():
    global _U
    if _U is None:
        _U = Universe()
    return _U


def mempool_reference(u, names, blocks):
    '''Per spendable script: what the mempool view must be, given the daemon's mempool (names)
    and the chain.'''
    ref = RefIndex(blocks, ACT)
    txs = {u.txs[n].txid: u.txs[n] for n in names}
    per = {}
    info = {}
    for txid, t in txs.items():
        in_pairs = []
        unconf = False
        for prev, idx, _s, _q in t.inputs:
            if prev == bytes(32) and idx == 0xffffffff:
                continue
            if prev in txs:
                unconf = True
                v, s = txs[prev].outputs[idx]
                in_pairs.append((s, v))
            else:
                s, v, _h, _n = ref.utxos[(prev, idx)]
                in_pairs.append((s, v))
        out_pairs = [(s, v) for v, s in t.outputs]
        fee = max(0, sum(v for _s, v in in_pairs) - sum(v for _s, v in out_pairs))
        info[txid] = (in_pairs, out_pairs, fee, unconf)
    for key, script in SCRIPTS.items():
        if key in ('R', 'F'):
            continue
        delta = 0
        summaries = set()
        utxos = set()
        spends = set()
        for txid, t in txs.items():
            in_pairs, out_pairs, fee, unconf = info[txid]
            touches = any(s == script for s, _v in in_pairs + out_pairs)
            if not touches:
                continue
            delta -= sum(v for s, v in in_pairs if s == script)
            delta += sum(v for s, v in out_pairs if s == script)
            summaries.add((txid, fee, unconf))
            for pos, (s, v) in enumerate(out_pairs):
                if s == script:
                    utxos.add((txid, pos, v))
            k = 0
            for prev, idx, _s, _q in t.inputs:
                if prev == bytes(32) and idx == 0xffffffff:
                    continue
                if in_pairs[k][0] == script:
                    spends.add((prev, idx))
                k += 1
        per[script] = dict(delta=delta, summaries=summaries, utxos=utxos, spends=spends)
    return per, info


def observe_mempool(s):
    '''The tracker's view through its public query methods.'''
    mp = s.mempool
    run = lambda c: s.loop.run_coro(c, fire_timers=False)
    out = {}
    for key, script in SCRIPTS.items():
        if key in ('R', 'F'):
            continue
        hx = script_hashX(script)
        sums = run(mp.transaction_summaries(hx))
        out[script] = dict(
            delta=run(mp.balance_delta(hx)),
            summaries={(bytes(x.hash), x.fee, bool(x.has_unconfirmed_inputs)) for x in sums},
            n_summaries=len(sums),
            utxos={(bytes(x.tx_hash), x.tx_pos, x.value) for x in run(mp.unordered_UTXOs(hx))},
            spends={(bytes(h), i) for h, i in run(mp.potential_spends(hx))})
    return out


def compare_mempool(obs, per):
    bad = []
    for script, want in per.items():
        got = obs[script]
        if got['delta'] != want['delta']:
            bad.append(('balance_delta', dict(script=script, got=got['delta'], want=want['delta'])))
        if got['summaries'] != want['summaries'] or got['n_summaries'] != len(want['summaries']):
            bad.append(('transaction_summaries', dict(script=script, got=sorted(got['summaries']),
                                                      want=sorted(want['summaries']))))
        if got['utxos'] != want['utxos']:
            bad.append(('unordered_UTXOs', dict(script=script, got=sorted(got['utxos']),
                                                want=sorted(want['utxos']))))
        if not want['spends'] <= got['spends']:
            bad.append(('potential_spends', dict(script=script, missing=sorted(want['spends'] - got['spends']))))
    return bad


def check_internal(s, u, res=None):
    '''C09 invariants on MemPool.txs / MemPool.hashXs (the property names them).'''
    mp = s.mempool
    bad = []
    inverse = {}
    for txid, tx in mp.txs.items():
        if tx.in_pairs is None:
            bad.append(('tx-recorded-without-inputs-resolved', dict(tx=u.by_id.get(bytes(txid)))))
            continue
        for hx, _v in tuple(tx.in_pairs) + tuple(tx.out_pairs):
            inverse.setdefault(hx, set()).add(txid)
    have = {hx: set(v) for hx, v in mp.hashXs.items() if v}
    if have != inverse:
        bad.append(('hashXs-not-inverse-of-txs', dict(
            extra=sorted((hx.hex() if hx else None) for hx in set(have) - set(inverse)),
            missing=sorted((hx.hex() if hx else None) for hx in set(inverse) - set(have)))))
    for txid, tx in mp.txs.items():
        name = u.by_id.get(bytes(txid))
        if name is None:
            bad.append(('unknown-tx-recorded', {}))
            continue
        if tx.in_pairs is None:
            continue
        t = u.txs[name]
        want_in = []
        for prev, idx, _s, _q in t.inputs:
            if prev == bytes(32) and idx == 0xffffffff:
                continue
            script, value = u.created[(prev, idx)]
            want_in.append((script_hashX(script), value))
        got_in = [(bytes(h), v) for h, v in tx.in_pairs]
        if got_in != want_in:
            bad.append(('wrong-input-value-or-script', dict(tx=name, got=got_in, want=want_in)))
        fee = max(0, sum(v for _h, v in want_in) - sum(v for v, _s in t.outputs))
        if tx.fee != fee:
            bad.append(('wrong-fee', dict(tx=name, got=tx.fee, want=fee)))
    return bad
