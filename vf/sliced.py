'''Sliced worker jobs: a job body runs in a real thread that holds a baton; before every storage
operation (get / iterator / put / batch commit) and every file read / write it hands the baton
back, so the scheduler can run event-loop callbacks or slices of another job in between.
Only one thread ever runs at a time, so executions are deterministic and replayable.
'''
import threading

from vf.vloop import Crash


class Abort(BaseException):
    pass


class SJob:
    def __init__(self, runner, job):
        self.runner = runner
        self.job = job              # vloop.Job
        self.thread = None
        self.go = threading.Semaphore(0)
        self.state = 'new'          # new | parked | done
        self.slices = 0
        self.value = None
        self.exc = None
        self.last_op = None

    def _body(self):
        self.go.acquire()
        try:
            if self.runner.aborting:
                raise Abort()
            self.value = self.job.func(*self.job.args)
        except Abort:
            pass
        except BaseException as e:      # noqa
            self.exc = e
        self.state = 'done'
        self.runner.current = None
        self.runner.back.release()

    def step(self):
        '''Run this job until its next I/O operation (exclusive) or its end.'''
        r = self.runner
        if self.state == 'done':
            raise RuntimeError('stepping a finished job')
        if self.thread is None:
            self.thread = threading.Thread(target=self._body, daemon=True)
            self.thread.start()
            if r.loop.job_hook:
                r.loop.job_hook(self.job)
        r.current = self
        self.slices += 1
        self.go.release()
        r.back.acquire()
        return self.state


class SlicedRunner:
    '''Owns the baton.  Installs itself as the machine's I/O hook.'''

    def __init__(self, world):
        self.world = world
        self.loop = world.loop
        self.back = threading.Semaphore(0)
        self.current = None
        self.aborting = False
        self.sjobs = {}
        self.main = threading.get_ident()
        m = world.machine
        m.io_hook = self._io
        m.stores.read_hook = self._io

    def _io(self, kind, path):
        if threading.get_ident() == self.main:
            return
        sj = self.current
        if sj is None:
            return
        sj.state = 'parked'
        sj.last_op = (kind, path)
        self.current = None
        self.back.release()
        sj.go.acquire()
        if self.aborting:
            raise Abort()
        self.current = sj

    def sjob(self, job):
        sj = self.sjobs.get(job.seq)
        if sj is None:
            sj = self.sjobs[job.seq] = SJob(self, job)
        return sj

    def active(self):
        '''Jobs that can take a step, oldest first.'''
        out = []
        for job in self.loop.jobs:
            out.append(self.sjob(job))
        return out

    def step(self, sj):
        job = sj.job
        if not job.started:
            job.started = True          # stays in loop.jobs until finished (still "in flight")
        state = sj.step()
        if state == 'done':
            self.loop.jobs.remove(job)
            job.result = (sj.value, sj.exc)
            if isinstance(sj.exc, Crash):
                raise sj.exc
            value, exc = sj.value, sj.exc

            def deliver():
                if job.fut.cancelled():
                    return
                if exc is not None:
                    job.fut.set_exception(exc)
                else:
                    job.fut.set_result(value)
            self.loop.call_soon(deliver)
            self.world._after_job(job)
        return state

    def run_to_completion(self, sj):
        while self.step(sj) != 'done':
            pass

    def shutdown(self):
        self.aborting = True
        for sj in self.sjobs.values():
            if sj.thread is not None and sj.state != 'done':
                sj.go.release()
                self.back.acquire()
        self.world.machine.io_hook = None
        self.world.machine.stores.read_hook = None
