'''Shared driver for C01 / C02: index a recipe chain through the real pipeline under a flush
schedule and compare every observable with the reference indexer after every full flush and at
catch-up.'''
import itertools

from vf import chain, observe, world
from vf.common import Broken
from vf.oracle import RefIndex

ACTIVATION = 3
_CHAIN_CACHE = {}


def chain_for(recipes):
    key = tuple(recipes)
    sim = _CHAIN_CACHE.get(key)
    if sim is None:
        if len(_CHAIN_CACHE) > 256:
            _CHAIN_CACHE.clear()
        sim = _CHAIN_CACHE[key] = chain.build_chain(list(recipes), ACTIVATION)
    return sim


def flush_map(flush):
    '''flush: string over -,H,F; position i is the directive landing while block i+1 advances.'''
    return {i + 1: (c == 'F') for i, c in enumerate(flush) if c in 'HF'}


def nontrivial_stats(sim, fmap, res):
    '''Oracle-side vacuity counters: spends that must take the DB path, history split over
    several flush rows, collisions resolved in the DB.'''
    full = sorted(h for h, f in fmap.items() if f)
    anyf = sorted(fmap)
    created = {}
    col_ids = {t.txid for t in (sim.collisions or [])}
    col_created = {}
    for b in sim.blocks:
        for t in b.txs:
            if not t.is_coinbase():
                for prev, idx, _s, _q in t.inputs:
                    hc = created.get((prev, idx))
                    if hc is not None and any(hc <= f < b.height for f in full):
                        res.count('db_path_spends')
                        nflush = sum(1 for f in full if hc <= f < b.height)
                        if nflush >= 2:
                            res.count('spends_of_outputs_flushed_2_flushes_earlier')
                        if prev in col_ids:
                            others = [c for c, h in col_created.items()
                                      if c != prev and any(h <= f < b.height for f in full)]
                            if others:
                                res.count('db_spends_with_2plus_prefix_candidates')
                    else:
                        res.count('cache_path_spends')
            for idx in range(len(t.outputs)):
                created[(t.txid, idx)] = b.height
            if t.txid in col_ids:
                col_created[t.txid] = b.height
    if len(anyf) >= 2:
        res.count('runs_with_history_split_over_rows')
    if any(not f for f in fmap.values()):
        res.count('runs_with_history_only_flush')


def run_index_case(case, res, what, prop):
    recipes = case['recipes']
    fmap = flush_map(case.get('flush', ''))
    if case.get('flush_every'):
        fmap = {h: True for h in range(1, len(recipes) + 1)}
    sim = chain_for(recipes)
    blocks = sim.blocks
    ref_full = RefIndex(blocks, ACTIVATION) if len(blocks) < 50 else None
    w = world.World(reorg_limit=case.get('limit', 200), activation=ACTIVATION,
                    prefetch=case.get('prefetch', 100), chunk_size=case.get('chunk'),
                    small_files=case.get('small_files', False))
    failures = []
    try:
        w.daemon.set_chain(blocks)
        w.flush_schedule = fmap
        light = ref_full is None
        if light:
            ref_full = RefIndex(blocks, ACTIVATION)

        def on_flush(w):
            h = w.db.state.height
            if light and h % 37:
                return
            try:
                obs = observe.observe(w, ref_full, isolated=True, what=what)
            except (world.ReaderBlocked, observe.ReadFailed):
                failures.append((f'read-retries-after-flush', dict(height=h)))
                return
            for field, detail in observe.compare(obs, observe.ref_at(blocks, h, ACTIVATION), what):
                failures.append((f'after-flush:{field}', dict(height=h, **_d(detail))))
            res.count('observations')
        w.on_full_flush = on_flush
        # stops: the daemon's chain first ends at these heights - the server catches up there
        # (and re-opens its databases for serving the first time); 'restart': it is stopped
        # and started again at that point
        targets = [(g, kind) for g, kind in case.get('stops', ()) if 0 <= g < len(blocks) - 1]
        targets.append((len(blocks) - 1, 'end'))
        started = False
        try:
            for g, kind in targets:
                w.daemon.set_chain(blocks[:g + 1])
                if not started:
                    w.start_sync()
                    started = True
                    w.run_until_caught_up()
                else:
                    w.poll()
                if kind == 'end':
                    break
                res.count('intermediate_catch_ups')
                try:
                    obs = observe.observe(w, ref_full, what=what)
                    for field, detail in observe.compare(obs, observe.ref_at(blocks, g, ACTIVATION), what):
                        failures.append((f'caught-up-at-stop:{field}', dict(height=g, **_d(detail))))
                except (world.ReaderBlocked, observe.ReadFailed) as e:
                    failures.append(('caught-up-at-stop:read-failed', dict(height=g, error=repr(e))))
                if kind in ('restart', 'restart-legacy'):
                    m = w.machine
                    w.close(destroy=False)
                    if kind == 'restart-legacy':
                        # a database begun by an earlier release: its state record has no
                        # utxo_count entry yet (the server counts the UTXOs when it finds none)
                        import ast
                        for path, store in m.stores.data.items():
                            if path.endswith('utxo') and b'state' in store:
                                st = ast.literal_eval(store[b'state'].decode())
                                st.pop('utxo_count', None)
                                store[b'state'] = repr(st).encode()
                                res.count('legacy_state_records')
                    w = world.World(m, reorg_limit=case.get('limit', 200), activation=ACTIVATION,
                                    prefetch=case.get('prefetch', 100), chunk_size=case.get('chunk'),
                                    small_files=case.get('small_files', False))
                    w.flush_schedule = fmap
                    w.on_full_flush = on_flush
                    started = False
                    res.count('restarts')
        except world.SyncFailed as e:
            failures.append(('sync-failed', dict(error=repr(e.args[0]))))
        except world.Stalled as e:
            failures.append(('sync-stalled', dict(error=repr(e))))
        else:
            if not w.at_daemon_tip():
                failures.append(('parked-below-daemon-tip',
                                 dict(height=w.db.state.height, daemon=len(blocks) - 1)))
            try:
                obs = observe.observe(w, ref_full, what=what)
            except (world.ReaderBlocked, observe.ReadFailed) as e:
                failures.append(('caught-up:read-failed', dict(error=repr(e))))
                obs = None
            for field, detail in (observe.compare(obs, ref_full, what) if obs else ()):
                failures.append((f'caught-up:{field}', _d(detail)))
            res.count('observations')
            if w.loop.errors:
                failures.append(('loop-error', dict(errors=[str(e.get('exception') or e.get('message'))
                                                            for e in w.loop.errors])))
        res.count('executions')
        res.count('scheduler_steps', w.loop.steps)
    finally:
        w.close()
    nontrivial_stats(sim, fmap, res)
    res.distinct('chains', tuple(b.hash for b in blocks))
    for field, detail in failures[:3]:
        res.violation(f'{field}', case, detail)
    return failures


def _d(detail):
    return detail if isinstance(detail, dict) else {'value': detail}


def product_cases(recipes, length, flushes='-HF', prefetches=(100,), limits=(200,), chunks=(None,)):
    for rs in itertools.product(recipes, repeat=length):
        for fl in itertools.product(flushes, repeat=length):
            for pf in prefetches:
                for lim in limits:
                    for ch in chunks:
                        yield dict(recipes=list(rs), flush=''.join(fl), prefetch=pf, limit=lim,
                                   chunk=ch)


def fixed_cases(tier):
    cases = []
    # prefix-collision triple: every creation/spend order and every full-flush placement
    names = ['col0', 'col1', 'col2']
    spends = ['scol0', 'scol1', 'scol2']
    for order in itertools.permutations(range(3)):
        for k in (1, 2, 3):            # how many are created before the first spend
            seq = [names[i] for i in order[:k]] + [spends[order[0]]] + \
                  [names[i] for i in order[k:]] + [spends[i] for i in order[1:]]
            for fl in itertools.product('-F', repeat=len(seq)):
                if tier == 'quick' and fl.count('F') > 2:
                    continue
                cases.append(dict(recipes=seq, flush=''.join(fl), prefetch=100, limit=200))
    # flush ids crossing 255 -> 256 -> 257 (big-endian row ordering): a flush after every block
    long_recipes = (['fan', 'old', 'self', 'multi', 'new', 'chain2'] * 50)[:262]
    cases.append(dict(recipes=long_recipes, flush_every=True, prefetch=10, limit=5))
    # a block with 253 transactions (3-byte tx count) spending 252 outputs created in one tx
    cases.append(dict(recipes=['big252', 'sweep252'], flush='F-', prefetch=100, limit=200))
    cases.append(dict(recipes=['big252', 'sweep252'], flush='--', prefetch=100, limit=200))
    # the daemon's chain ends early once or twice (the server catches up, re-opens its databases
    # for serving, later indexes on while caught up), with and without a restart at that point
    for rs in (['fan', 'old', 'multi', 'chain2', 'new', 'self'], ['old', 'new', 'old', 'new', 'old', 'new'],
               ['cb', 'fan', 'chain2', 'old', 'opret', 'empty']):
        for fl in ('------', 'H-F-H-', 'FFFFFF', '-H--H-') if tier == 'quick' else \
                [''.join(f) for f in itertools.product('-HF', repeat=6)][::3]:
            for g in range(0, 6):
                for kind in ('grow', 'restart', 'restart-legacy'):
                    cases.append(dict(recipes=rs, flush=fl, prefetch=100, limit=200, stops=[(g, kind)]))
            for g1, g2 in ((1, 3), (2, 4), (3, 5), (0, 5)):
                cases.append(dict(recipes=rs, flush=fl, prefetch=100, limit=200,
                                  stops=[(g1, 'grow'), (g2, 'restart')]))
    # a transaction with more than 65,536 outputs, spends on both sides of the index-width marks
    for fl in ('F-H', '---', '-FF'):
        cases.append(dict(recipes=['wide', 'sweepwide', 'old'], flush=fl, prefetch=100, limit=200))
    # blocks whose coinbase touches no script hash, followed by other transactions
    for rs in itertools.product(['burn+old', 'burn+chain2', 'burn+cb', 'fan'], repeat=3):
        for fl in (('---', 'F-H', '-FF') if tier == 'quick' else
                   [''.join(f) for f in itertools.product('-HF', repeat=3)]):
            cases.append(dict(recipes=list(rs), flush=fl, prefetch=100, limit=200))
    # flat files split into tiny physical files: every flush straddles file boundaries
    cases.append(dict(recipes=long_recipes[:130], flush_every=True, prefetch=10, limit=5,
                      small_files=True))
    cases.append(dict(recipes=['big252', 'sweep252', 'old'], flush='F-H', prefetch=100, limit=200,
                      small_files=True))
    for rs in (['fan', 'chain2', 'old', 'multi', 'new', 'self'], ['old', 'new', 'fan', 'opret', 'empty', 'old']):
        for fl in itertools.product('-HF', repeat=len(rs)):
            if tier == 'quick' and fl.count('-') < 2:
                continue
            cases.append(dict(recipes=rs, flush=''.join(fl), prefetch=3, limit=200, small_files=True))
    return cases
