'''Reference oracles, written boringly and without importing electrumx.'''
from hashlib import sha256

from vf.chain import is_unspendable, script_hashX


class RefIndex:
    '''What a perfect indexer would hold after the given blocks (heights 0..n-1).'''

    def __init__(self, blocks, activation):
        self.blocks = list(blocks)
        self.activation = activation
        self.utxos = {}            # (txid, idx) -> (script, value, height, tx_num)
        self.txs = []              # tx_num -> (txid, height)
        self.block_txids = []      # height -> [txid]
        self.hist = {}             # script -> [(txid, height)]  spendable-rule history
        self.hist_loose = {}       # script -> [(txid, height)]  counting unspendable outputs too
        self.scripts = set()
        self.unspendable_scripts = set()
        self.created = {}          # every outpoint ever created (spendable) -> (script, value)
        self.db_spends = 0
        self.chain_size = 0
        for blk in self.blocks:
            h = blk.height
            ids = []
            self.chain_size += len(blk.raw)
            for t in blk.txs:
                tx_num = len(self.txs)
                self.txs.append((t.txid, h))
                ids.append(t.txid)
                touched, loose = [], []
                if not t.is_coinbase():
                    for prev, idx, _s, _q in t.inputs:
                        script, _value, _h, _n = self.utxos.pop((prev, idx))
                        touched.append(script)
                        loose.append(script)
                for idx, (value, script) in enumerate(t.outputs):
                    self.scripts.add(script)
                    loose.append(script)
                    if is_unspendable(script, h, self.activation):
                        self.unspendable_scripts.add(script)
                        continue
                    self.utxos[(t.txid, idx)] = (script, value, h, tx_num)
                    self.created[(t.txid, idx)] = (script, value)
                    touched.append(script)
                for script in dict.fromkeys(touched):
                    self.hist.setdefault(script, []).append((t.txid, h))
                for script in dict.fromkeys(loose):
                    self.hist_loose.setdefault(script, []).append((t.txid, h))
            self.block_txids.append(ids)

    @property
    def height(self):
        return len(self.blocks) - 1

    @property
    def tip(self):
        return self.blocks[-1].hash if self.blocks else bytes(32)

    def utxos_of(self, script):
        '''sorted list of (txid, idx, value, height)'''
        return sorted((op[0], op[1], v, h) for op, (s, v, h, _n) in self.utxos.items()
                      if s == script)

    def balance(self, script):
        return sum(v for s, v, _h, _n in self.utxos.values() if s == script)

    def history(self, script):
        return list(self.hist.get(script, []))

    def summary(self):
        return dict(height=self.height, tip=self.tip, tx_count=len(self.txs),
                    utxo_count=len(self.utxos), chain_size=self.chain_size)


def status_of(confirmed, mempool_perms):
    '''Protocol status strings acceptable for a script hash: confirmed part in order, mempool
    part in any order (docs/protocol-basics.rst).  confirmed: [(txid, height)], mempool_perms:
    iterable of orderings, each [(txid, height0or-1)].  Returns the set of acceptable statuses.'''
    out = set()
    for perm in mempool_perms:
        s = ''.join(f'{txid[::-1].hex()}:{h:d}:' for txid, h in confirmed)
        s += ''.join(f'{txid[::-1].hex()}:{h:d}:' for txid, h in perm)
        out.add(sha256(s.encode()).hexdigest() if s else None)
    return out
