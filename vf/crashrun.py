'''Crash (process death) enumeration over the durable-effect log of a recorded run.

A recorded run yields: the snapshot of the machine before the run, the totally ordered effect
log (file create/write/remove/mkdir, DB batch commits and direct puts), and marks.  For crash
point k the post-crash machine is the snapshot plus log[:k] (plus, for a file write, any byte
prefix of effect k).  In-memory state is discarded; fresh real objects are opened on it.
'''
from vf import observe, world
from vf.common import Broken

WHAT = ('utxo', 'hist', 'headers')
SMALL_TORN = (1, 2, 7, 8, 9, 31, 32, 33, 79, 80, 81)


def torn_sizes(eff):
    if eff[0] != 'write':
        return []
    n = len(eff[3])
    if n <= 1:
        return []
    if 'blocks/' in eff[1]:
        return [n // 2]                     # block files are deleted on start-up anyway
    if n <= 48:
        return list(range(1, n))
    cand = set(SMALL_TORN) | {n // 2, n - 33, n - 32, n - 9, n - 8, n - 1}
    return sorted(c for c in cand if 0 < c < n)


def crash_points(log, lo=0, hi=None, torn=True):
    hi = len(log) if hi is None else hi
    for k in range(lo, hi + 1):
        yield k, None
        if torn and k < hi and k < len(log):
            for nbytes in torn_sizes(log[k]):
                yield k, nbytes


def kind_of(log, k, nbytes):
    if nbytes is not None:
        return 'torn-file-write'
    if k >= len(log):
        return 'after-last-effect'
    eff = log[k]
    if eff[0] == 'db':
        which = 'utxo' if eff[1].endswith('utxo') else 'hist'
        return f'before-{which}-{eff[2]}'
    if eff[0] == 'write':
        return 'before-file-write:' + ('block' if 'blocks/' in eff[1] else eff[1].split('/')[-1][:-2])
    return 'before-' + eff[0]


def open_after_crash(snapshot, log, k, nbytes, params):
    effects = log[:k]
    torn = (log[k], nbytes) if nbytes is not None else None
    m = world.Machine.from_snapshot(snapshot, effects, torn)
    return m


def observe_open(machine, blocks, params, res, failures, label, min_height, allowed_heights,
                 activation):
    '''Open the DB as a restarting server does, check what it reports, close again.  Returns the
    recovery's own effect log (for crash-during-recovery) and the opened height.'''
    pre = machine.snapshot() if params.get('nested') else None
    start = len(machine.log)
    w = world.World(machine, **params['world'])
    height = None
    try:
        w.daemon.set_chain(blocks)
        try:
            state = w.loop.run_coro(w.db.open_for_sync(), fire_timers=False)
        except Exception as e:      # noqa
            failures.append((f'{label}:open-failed', dict(error=repr(e))))
            return None, None, pre
        height = state.height
        if height not in allowed_heights:
            failures.append((f'{label}:opened-at-uncommitted-height',
                             dict(height=height, allowed=sorted(allowed_heights))))
        elif height < min_height:
            failures.append((f'{label}:committed-work-lost',
                             dict(height=height, committed=min_height)))
        if height >= 0 and height < len(blocks):
            ref = observe.ref_at(blocks, height, activation)
            try:
                obs = observe.observe(w, ref, what=WHAT)
            except (world.ReaderBlocked, observe.ReadFailed):
                failures.append((f'{label}:reader-retries-forever', dict(height=height)))
            except Exception as e:      # noqa
                failures.append((f'{label}:read-failed', dict(height=height, error=repr(e))))
            else:
                for field, detail in observe.compare(obs, ref, WHAT):
                    failures.append((f'{label}:{field}', dict(height=height, **(
                        detail if isinstance(detail, dict) else {'v': detail}))))
        res.count('recoveries_observed')
    finally:
        w.close(destroy=False)
    return machine.log[start:], height, pre


def undo_window(w, limit):
    '''Heights of the most recent `limit` blocks for which undo information is stored (part of
    "the same final state": without it a later reorganisation cannot be followed).'''
    tip = w.db.state.height
    hs = [int.from_bytes(k[-4:], 'big') for k, _v in w.db.utxo_db.iterator(prefix=b'U')]
    return sorted(h for h in hs if tip - limit < h <= tip)


def resume_and_compare(machine, blocks, params, flush_schedule, obs_final, ref_final, res, failures,
                       label):
    w = world.World(machine, **params['world'])
    try:
        w.daemon.set_chain(blocks)
        w.flush_schedule = dict(flush_schedule)
        w.start_sync()
        try:
            w.run_until_caught_up()
        except world.SyncFailed as e:
            failures.append((f'{label}:resume-died', dict(error=repr(e.args[0]))))
            return
        except world.Stalled as e:
            failures.append((f'{label}:resume-stalled', dict(error=repr(e))))
            return
        if not w.at_daemon_tip():
            failures.append((f'{label}:resume-not-at-tip', dict(height=w.db.state.height)))
            return
        try:
            obs = observe.observe(w, ref_final, what=WHAT)
        except (world.ReaderBlocked, observe.ReadFailed):
            failures.append((f'{label}:resume-reader-retries-forever', {}))
            return
        obs['undo_window'] = undo_window(w, params['world']['reorg_limit'])
        if obs != obs_final:
            diff = [k for k in obs if obs[k] != obs_final.get(k)]
            failures.append((f'{label}:resumed-run-differs-from-uninterrupted', dict(fields=diff)))
        res.count('resumes_compared')
    finally:
        w.close(destroy=False)
