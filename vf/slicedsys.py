'''Requests served in the MIDDLE of worker-thread jobs (full system, sliced jobs).

The schedule explorer (vf/explore.py) treats a worker job as atomic.  In the server a job runs
in a thread while the event loop keeps serving clients, so a request can read in-memory state
that a job has half updated (that is how defect F14 arose).  Here a scenario script is run under
the default schedule with the MUTATING jobs (advance_block, backup_block, flush_dbs) SLICED
(vf/sliced.py: a job hands control back before each storage / file operation) and, at slice
point k, a burst of client requests is injected and served to completion - event-loop callbacks
and any other jobs run, the sliced job stays where it is - before the job continues.  k ranges
over every slice point of every mutating job of the scenario.

Split mode (two threads really interleaved): the first read job R started by the injected
requests is itself stopped after i of its own slices, the mutating job(s) go on for b more slice
points, and only then does R finish - a read torn by the mutation.  (k, i, b) are enumerated.
'''
from vf.common import Broken
from vf.sliced import SlicedRunner

MUTATING = ('advance_block', 'backup_block', 'flush_dbs')


class SlicedRun:
    '''Looks like explore.Run to the judges (attributes s, trace).'''

    def __init__(self, system, script, closing_ticks=10):
        self.s = system
        self.script = list(script)
        self.closing_ticks = closing_ticks
        self.trace = []
        self.points = 0
        self.injected_at = None
        self.after = None

    def run(self, k, inject, after=None, split=None):
        '''Returns True if slice point k exists (the requests were injected).  after(system) is
        called once the injected burst has been served.  split=(i, b): see the module text;
        self.split_hit tells whether a read job really was stopped after i slices.'''
        s = self.s
        self.after = after
        self.split = split
        self.parked = None
        self.split_hit = False
        self.resume_point = None
        runner = SlicedRunner(s)
        try:
            for ev in self.script:
                if ev == 'tick':
                    s.loop.fire_polling_timer()
                    self.trace.append('tick')
                else:
                    ev[1](s)
                    self.trace.append('E:' + ev[0])
                self._to_idle(runner, k, inject)
            # jobs still held back by the scenario's set-up are let go now
            for job in list(s.loop.jobs):
                job.held = False
            self._to_idle(runner, k, inject)
            for _ in range(self.closing_ticks):
                if not s.loop.fire_polling_timer():
                    break
                self._to_idle(runner, k, inject)
        finally:
            runner.shutdown()
        return self.injected_at is not None

    def _to_idle(self, runner, k, inject):
        s = self.s
        guard = 0
        while True:
            guard += 1
            if guard > 400000:
                raise Broken('sliced system does not go idle')
            if s.loop.step_ready():
                continue
            if self.parked is not None and self.points >= self.resume_point:
                self._finish_parked(runner)
                continue
            active = [x for x in runner.active() if x is not self.parked and not x.job.held]
            if active:
                sj = active[0]
                name = getattr(sj.job.func, '__name__', '')
                if name in MUTATING:
                    if self.points == k and self.injected_at is None:
                        self.injected_at = (name, (sj.last_op or ('start',))[0], sj.slices)
                        inject(s)
                        # serve the requests to completion; the mutating job does not move
                        first, steps = None, 0
                        while True:
                            if s.loop.step_ready():
                                continue
                            others = [x for x in runner.active()
                                      if x is not sj and x is not self.parked and not x.job.held]
                            if not others:
                                break
                            o = others[0]
                            if self.split and self.parked is None and first in (None, o):
                                first = o
                                if steps == self.split[0]:
                                    # R has made i slices and is not finished: it waits
                                    self.parked = o
                                    self.split_hit = True
                                    self.resume_point = self.points + self.split[1]
                                    continue
                                steps += 1
                            if runner.step(o) == 'done' and o is first:
                                first = False       # finished before its i-th slice
                        self.trace.append(f'inject@{name}:{self.injected_at[1]}')
                        if self.after:
                            self.after(s)
                        continue
                    self.points += 1
                if runner.step(sj) == 'done':
                    self.trace.append('J:' + name)
                continue
            pend = [r for r in s.daemon.pending if not r.held]
            if pend:
                s.daemon.deliver(pend[0])
                continue
            if self.parked is not None:
                self._finish_parked(runner)
                continue
            return

    def _finish_parked(self, runner):
        sj, self.parked = self.parked, None
        runner.run_to_completion(sj)
        self.trace.append('J:(torn read finished)')


def enumerate_splits(make, script_of, inject, judge, res, label, closing_ticks=10, only=None,
                     i_max=4, b_set=(1, 2, 3, 5, 8), max_points=600):
    """Split mode over every (k, i, b): [(k, i, b), key, detail] for the failing ones."""
    found = []
    todo = [tuple(only)] if only is not None else None
    k = 0
    while True:
        any_hit = False
        for i in range(1, i_max + 1):
            hit_i = False
            for b in b_set:
                if todo is not None:
                    k, i, b = todo[0]
                s = make()
                try:
                    run = SlicedRun(s, script_of(s), closing_ticks=closing_ticks)
                    hit = run.run(k, inject, split=(i, b))
                    if hit:
                        any_hit = True
                    if hit and run.split_hit:
                        hit_i = True
                        res.count('torn_read_executions')
                        for key, detail in judge(run)[:1]:
                            found.append(((k, i, b), key, dict(detail, slice_point=k, read_slices=i,
                                                              mutation_slices=b,
                                                              site=list(run.injected_at))))
                finally:
                    s.close()
                if todo is not None:
                    return found
                if not (hit and run.split_hit):
                    break
            if not hit_i:
                break
        if not any_hit:
            break
        k += 1
        if k > max_points:
            raise Broken(f'more than {max_points} slice points in {label}')
    return found


def enumerate_points(make, script_of, inject, judge, res, label, closing_ticks=10, only_k=None,
                     max_points=600, after=None):
    """Runs the scenario once per slice point (fresh system each time).  judge(run) -> list of
    (key, detail).  Returns [(k, key, detail)] for the failing points."""
    found = []
    k = only_k if only_k is not None else 0
    n = 0
    while True:
        s = make()
        try:
            run = SlicedRun(s, script_of(s), closing_ticks=closing_ticks)
            hit = run.run(k, inject, after)
            if hit:
                n += 1
                res.count('sliced_executions')
                res.distinct('slice_sites', run.injected_at[:2])
                for key, detail in judge(run)[:1]:
                    found.append((k, key, dict(detail, slice_point=k, site=list(run.injected_at))))
            elif only_k is not None:
                raise Broken(f'slice point {k} does not exist in {label}')
        finally:
            s.close()
        if only_k is not None or not hit:
            break
        k += 1
        if k > max_points:
            raise Broken(f'more than {max_points} slice points in {label}')
    if only_k is None:
        res.maxi('slice_points', n)
    return found
