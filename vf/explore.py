'''Stateless schedule exploration of the full system with iterative deviation bounding.

An execution = a fresh System built by the scenario (set-up phase, default schedule, not
explored) + an explored phase.  During the explored phase the scheduler stops at every
QUIESCENT POINT (the loop's ready queue is empty; asyncio's FIFO order between ready callbacks
is not a choice) and computes the menu of enabled actions in canonical order:

   J:k / D:k   run pending worker job k / deliver pending daemon reply k   (oldest first)
   N           the next item of the scenario script: an environment event (daemon chain /
               mempool change, client request, admin RPC, cache pressure) or one polling-timer
               firing ('tick')
   R:k         release a held job / reply;  arrive:k  hand over a stalled result

Default policy: the oldest pending J/D if there is one, else N.  A DEVIATION (cost 1) is: a
younger J/D before an older one; N while a J/D is pending (the environment or a timer overtakes
a slow thread / a slow daemon); hold(k): mark the oldest J/D as held (not yet started / not yet
answered) - it is skipped until a release (free) is chosen at any later quiescent point;
stall(k): the job body runs / the daemon computes its answer NOW but the result is handed over
only at a later point (free 'arrive') - a thread descheduled after its last read, a reply in
transit.  When the script is exhausted everything is released and the default policy runs on.
Exploration is by prefix replay on fresh objects: all executions with 0 deviations, then 1, ...
A replayed prefix whose menu differs from the recorded one is a hard error.
'''
from vf.common import Broken


class Item:
    '''Adapter over a pending vloop.Job or world.Reply.'''

    def __init__(self, kind, obj, born):
        self.kind, self.obj, self.born = kind, obj, born

    @property
    def held(self):
        return self.obj.held

    def label(self):
        if self.kind == 'J':
            return 'J:' + getattr(self.obj.func, '__name__', '?')
        return 'D:' + self.obj.kind


class Run:
    def __init__(self, system, script, *, closing_ticks=8, point_hook=None):
        self.s = system
        self.script = list(script)
        self.pos = 0
        self.closing_ticks = closing_ticks
        self.point_hook = point_hook
        self.born = {}
        self.counter = 0
        self.menus = []         # per choice point: list of labels
        self.taken = []
        self.costs = []         # cost of each alternative index at that point
        self.trace = []
        self.stalled = []       # (label, hand-over callable): ran / answered, not yet delivered

    def _items(self):
        out = []
        for j in self.s.loop.pending_jobs():
            out.append(Item('J', j, self._born(('J', j.seq))))
        for r in self.s.daemon.pending:
            out.append(Item('D', r, self._born(('D', r.seq))))
        out.sort(key=lambda it: it.born)
        return out

    def _born(self, key):
        if key not in self.born:
            self.counter += 1
            self.born[key] = self.counter
        return self.born[key]

    def _drain(self):
        n = 0
        while self.s.loop.step_ready():
            n += 1
            if n > 200000:
                raise Broken('ready queue does not drain')
        # register births in creation order
        self._items()

    def _do_item(self, it):
        if it.kind == 'J':
            self.s._after_job(self.s.loop.run_job(it.obj))
        else:
            self.s.daemon.deliver(it.obj)

    def _do_next(self):
        ev = self.script[self.pos]
        self.pos += 1
        if ev == 'tick':
            self.s.loop.fire_polling_timer()
        else:
            ev[1](self.s)
        return ev

    def run(self, choices):
        '''choices: list of alternative indexes, one per choice point, 0 = default.'''
        s = self.s
        k = 0
        guard = 0
        while True:
            guard += 1
            if guard > 50000:
                raise Broken('explored phase does not end')
            self._drain()
            if self.point_hook:
                self.point_hook(self)
            items = self._items()
            free = [it for it in items if not it.held]
            held = [it for it in items if it.held]
            have_next = self.pos < len(self.script)
            if not have_next:
                break
            # menu in canonical order, default first
            menu = []
            if free:
                menu.append(('run', free[0], 0))
                menu.append(('next', None, 1))
                for it in free[1:3]:
                    menu.append(('run', it, 1))
                menu.append(('hold', free[0], 1))
                menu.append(('stall', free[0], 1))
            else:
                menu.append(('next', None, 0))
            for it in held:
                menu.append(('release', it, 0))
            for n_, (label, _f) in enumerate(self.stalled):
                menu.append(('arrive', n_, 0))
            c = choices[k] if k < len(choices) else 0
            if c >= len(menu):
                raise Broken(f'replay diverged at choice point {k}: {c} not in menu of {len(menu)}')
            self.menus.append([m[0] + (':' + m[1].label() if isinstance(m[1], Item) else '')
                               for m in menu])
            self.costs.append([m[2] for m in menu])
            self.taken.append(c)
            k += 1
            act, it, _cost = menu[c]
            if act == 'run':
                self._do_item(it)
                self.trace.append(it.label())
            elif act == 'next':
                ev = self._do_next()
                self.trace.append('tick' if ev == 'tick' else 'E:' + ev[0])
            elif act == 'hold':
                it.obj.held = True
                self.trace.append('hold:' + it.label())
            elif act == 'stall':
                # the body runs / the daemon answers NOW, the result travels slowly
                if it.kind == 'J':
                    self.s._after_job(self.s.loop.run_job(it.obj, deliver=False))
                    self.stalled.append((it.label(), it.obj.deliver))
                else:
                    self.s.daemon.deliver(it.obj, later=True)
                    self.stalled.append((it.label(), it.obj.deliver_now))
                self.trace.append('stall:' + it.label())
            elif act == 'arrive':
                label, f = self.stalled.pop(it)
                f()
                self.trace.append('arrive:' + label)
            else:
                it.obj.held = False
                self.trace.append('release:' + it.label())
        # closing: release everything, default policy to quiescence
        for it in self._items():
            it.obj.held = False
        for label, f in self.stalled:
            f()
        self.stalled = []
        s.run_idle()
        for _ in range(self.closing_ticks):
            if not s.loop.fire_polling_timer():
                break
            s.run_idle()
        return self


def _fingerprint(s):
    '''What the clients saw and where the index ended, for the determinism self-test.'''
    out = [s.db.state.height, bytes(s.db.state.tip), list(getattr(s, 'calls_log', ()))]
    for name, c in sorted(getattr(s, 'x_clients', {}).items()):
        out.append((name, [repr(sorted(m.items())) for m in c.messages]))
    return out


def explore(make, script_of, bound, judge, res, case, only=None, max_execs=None, point_hook=None,
            closing_ticks=8, shard=None, first=None):
    '''make() -> fresh System after set-up; script_of(system) -> script; judge(run) -> list of
    (key, detail).  Explores every choice vector whose total deviation cost is <= bound; with
    only=<choices> re-executes exactly that vector (replay).  first=<label>: only the vectors
    whose FIRST deviation is the menu entry with that label (a slice of a deeper bound).'''
    stack = [(list(only) if only is not None else [], 0)]
    execs = 0
    if only is None and (not shard or shard[0] == 0):
        # determinism self-test: the deviation-free execution twice, identical menus and trace
        seen = []
        for _ in range(2):
            s = make()
            try:
                run = Run(s, script_of(s), closing_ticks=closing_ticks)
                run.run([])
                seen.append((run.menus, run.trace, _fingerprint(s)))
            finally:
                s.close()
        if seen[0] != seen[1]:
            raise Broken('non-deterministic execution: the same schedule gave different menus, '
                         'traces or observations')
        res.count('determinism_self_tests')
    while stack:
        prefix, cost = stack.pop()
        s = make()
        try:
            run = Run(s, script_of(s), point_hook=point_hook, closing_ticks=closing_ticks)
            run.run(prefix)
            if shard and not prefix and shard[0] != 0:
                failures = []       # the deviation-free execution is judged by shard 0
            else:
                failures = judge(run)
                res.count('executions')
            execs += 1
            if not (shard and not prefix and shard[0] != 0):
                res.count('choice_points', len(run.taken))
                res.count(f'executions_with_{cost}_deviations')
            res.maxi('choice_points_in_one_execution', len(run.taken))
            for i, c in enumerate(run.taken):
                if c:
                    res.distinct('deviation_kinds', run.menus[i][c].split(':')[0])
            res.distinct('schedules', (case.get('scenario'), tuple(run.taken)))
        finally:
            s.close()
        for key, detail in failures[:1]:
            res.violation(key, dict(case, choices=list(run.taken)),
                          dict(detail, choices=list(run.taken), schedule=run.trace[-60:]))
        if only is not None:
            return
        if max_execs and execs >= max_execs:
            res.count('exploration_cap_hits')
            return
        taken = run.taken
        nth = 0
        for i in range(len(prefix), len(taken)):
            if shard and not first and not prefix and i % shard[1] != shard[0]:
                continue            # another shard explores the deviations starting here
            for alt in range(1, len(run.costs[i])):
                c2 = cost + run.costs[i][alt]
                if first and not prefix:
                    if run.menus[i][alt] != first:
                        continue
                    nth += 1        # a slice is sharded by the occurrences of its label
                    if shard and nth % shard[1] != shard[0]:
                        continue
                if c2 <= bound:
                    stack.append((taken[:i] + [alt], c2))
