#!/bin/sh
# Offline set-up: nothing to fetch or compile.  Verifies the interpreter and the tree under test
# import, and pre-builds deterministic caches (mined prefix-colliding coinbases) if absent.
set -e
cd "$(dirname "$0")"
export PYTHONDONTWRITEBYTECODE=1 PYTHONHASHSEED=0
/venv/bin/python - <<'PY'
import sys
sys.dont_write_bytecode = True
sys.path.insert(0, '/verif')
from vf import common
common.setup_imports()
import electrumx, aiorpcx, plyvel, sortedcontainers
print('setup ok: electrumx', electrumx.version, 'aiorpcx', aiorpcx._version_str)
PY
if [ -f tools/mine_collisions.py ]; then /venv/bin/python tools/mine_collisions.py; fi
/venv/bin/python tools/conformance.py
